package main

import (
	"fmt"
	"go/ast"
	"go/token"
	"go/types"
	"strings"
)

// SearchParams: the inline literals and code shapes of the search pipeline that the model
// (Model/Search.lean, Model/Legacy.lean) carries as Lean constants.  Each is found at its own site by
// a site-specific pattern; Props/C01.lean proves `params_match` (model constant = extracted value) by
// `decide`, so a changed literal breaks an obligation until the model is brought in line.

// es renders an expression the way it is written (modulo spacing).
func es(e ast.Expr) string { return types.ExprString(e) }

// stmtsOf collects every statement of a function body (all nesting levels).
func ifStmts(fd *ast.FuncDecl) []*ast.IfStmt {
	var out []*ast.IfStmt
	ast.Inspect(fd.Body, func(n ast.Node) bool {
		if is, ok := n.(*ast.IfStmt); ok {
			out = append(out, is)
		}
		return true
	})
	return out
}

// singleAssign: body is exactly `lhs = <expr>`; returns the rhs.
func singleAssign(b *ast.BlockStmt, lhs string) (ast.Expr, bool) {
	if b == nil || len(b.List) != 1 {
		return nil, false
	}
	as, ok := b.List[0].(*ast.AssignStmt)
	if !ok || as.Tok != token.ASSIGN || len(as.Lhs) != 1 || len(as.Rhs) != 1 || es(as.Lhs[0]) != lhs {
		return nil, false
	}
	return as.Rhs[0], true
}

// ifSet finds the unique `if <cond> { <lhs> = <literal> }` in fd and returns the literal.
func ifSet(fd *ast.FuncDecl, cond, lhs string) (ast.Expr, int) {
	var got ast.Expr
	n := 0
	for _, is := range ifStmts(fd) {
		if is.Init == nil && is.Else == nil && es(is.Cond) == cond {
			if rhs, ok := singleAssign(is.Body, lhs); ok {
				got = rhs
				n++
			}
		}
	}
	return got, n
}

func intLit(e ast.Expr) (string, bool) {
	if bl, ok := e.(*ast.BasicLit); ok && bl.Kind == token.INT {
		return bl.Value, true
	}
	return "", false
}

func init() {
	register("d_searchparams", func(x *X) {
		const dbp = "internal/database"
		nat := map[string]string{} // name -> decimal
		q := map[string]string{}   // name -> ⟨n, d⟩
		bl := map[string]bool{}    // shape facts
		order := []string{}
		setNat := func(k, v string) { nat[k] = v; order = append(order, k) }
		setQ := func(k, v string) { q[k] = v; order = append(order, k) }
		setB := func(k string, v bool) { bl[k] = v; order = append(order, k) }

		// ---- SearchUniversal: default limit, default term cap, final truncation, fallback truncation ----
		su := x.Func(dbp, "SearchUniversal")
		if x.Assert("searchparams:SearchUniversal", su != nil, "SearchUniversal not found") {
			rhs, n := ifSet(su, "options.Limit <= 0", "options.Limit")
			v, ok := intLit(rhs)
			if x.Assert("searchparams:default-limit", n == 1 && ok, "expected exactly one `if options.Limit <= 0 { options.Limit = <int> }` in SearchUniversal (found %d)", n) {
				setNat("defaultLimit", v)
			}
			rhs, n = ifSet(su, "termsCap <= 0", "termsCap")
			v, ok = intLit(rhs)
			capFromOpt := false
			ast.Inspect(su.Body, func(nd ast.Node) bool {
				if as, ok := nd.(*ast.AssignStmt); ok && as.Tok == token.DEFINE && len(as.Lhs) == 1 && es(as.Lhs[0]) == "termsCap" && es(as.Rhs[0]) == "options.TopTermsCap" {
					capFromOpt = true
				}
				return true
			})
			if x.Assert("searchparams:default-term-cap", n == 1 && ok && capFromOpt, "expected `termsCap := options.TopTermsCap; if termsCap <= 0 { termsCap = <int> }` in SearchUniversal") {
				setNat("defaultTermCap", v)
			}
			// final truncation: `if len(results) > options.Limit { results = results[:options.Limit] }`
			rhs, n = ifSet(su, "len(results) > options.Limit", "results")
			okTr := n == 1 && rhs != nil && es(rhs) == "results[:options.Limit]"
			x.Assert("searchparams:final-truncation", okTr, "expected `if len(results) > options.Limit { results = results[:options.Limit] }` in SearchUniversal")
			setB("finalTruncation", okTr)
			// both fuzzy fallbacks: `return db.limitResults(db.performFuzzySearch(query, options), options.Limit)`
			nFz, nFzOK := 0, 0
			ast.Inspect(su.Body, func(nd ast.Node) bool {
				if ce, ok := nd.(*ast.CallExpr); ok && strings.HasSuffix(es(ce.Fun), "performFuzzySearch") {
					nFz++
				}
				if rs, ok := nd.(*ast.ReturnStmt); ok && len(rs.Results) == 1 &&
					es(rs.Results[0]) == "db.limitResults(db.performFuzzySearch(query, options), options.Limit)" {
					nFzOK++
				}
				return true
			})
			okFz := nFz == 2 && nFzOK == 2
			x.Assert("searchparams:fuzzy-fallback-truncated", okFz, "expected both typo fallbacks of SearchUniversal to be `return db.limitResults(db.performFuzzySearch(query, options), options.Limit)` (calls %d, in that form %d)", nFz, nFzOK)
			setB("fuzzyFallbackTruncated", okFz)
		}
		// limitResults: `if len(results) > limit { return results[:limit] }; return results`
		if lr := x.Func(dbp, "limitResults"); x.Assert("searchparams:limitResults", lr != nil, "limitResults not found") {
			ok := false
			if len(lr.Body.List) == 2 {
				if is, isIf := lr.Body.List[0].(*ast.IfStmt); isIf && es(is.Cond) == "len(results) > limit" && len(is.Body.List) == 1 {
					if rs, isRet := is.Body.List[0].(*ast.ReturnStmt); isRet && len(rs.Results) == 1 && es(rs.Results[0]) == "results[:limit]" {
						if rs2, isRet2 := lr.Body.List[1].(*ast.ReturnStmt); isRet2 && len(rs2.Results) == 1 && es(rs2.Results[0]) == "results" {
							ok = true
						}
					}
				}
			}
			x.Assert("searchparams:limitResults-shape", ok, "expected `if len(results) > limit { return results[:limit] }; return results`")
			setB("limitResultsTruncates", ok)
		}

		// ---- enhanceQueryWithNLP: append cap ----
		if fd := x.Func(dbp, "enhanceQueryWithNLP"); x.Assert("searchparams:enhanceQueryWithNLP", fd != nil, "enhanceQueryWithNLP not found") {
			val, n := "", 0
			for _, is := range ifStmts(fd) {
				be, ok := is.Cond.(*ast.BinaryExpr)
				if !ok || be.Op != token.LAND || es(be.X) != "!found" {
					continue
				}
				if c, ok := be.Y.(*ast.BinaryExpr); ok && c.Op == token.LSS && es(c.X) == "len(terms)" {
					if v, ok := intLit(c.Y); ok {
						if rhs, ok := singleAssign(is.Body, "terms"); ok && es(rhs) == "append(terms, enhTerm)" {
							val = v
							n++
						}
					}
				}
			}
			if x.Assert("searchparams:append-cap", n == 1, "expected one `if !found && len(terms) < <int> { terms = append(terms, enhTerm) }`") {
				setNat("appendCap", val)
			}
		}

		// ---- selectTopTerms: protected prefix ----
		if fd := x.Func(dbp, "selectTopTerms"); x.Assert("searchparams:selectTopTerms", fd != nil, "selectTopTerms not found") {
			val, n := "", 0
			ast.Inspect(fd.Body, func(nd ast.Node) bool {
				if as, ok := nd.(*ast.AssignStmt); ok && len(as.Lhs) == 1 && es(as.Lhs[0]) == "preserveCount" && len(as.Rhs) == 1 {
					if ce, ok := as.Rhs[0].(*ast.CallExpr); ok && es(ce.Fun) == "utils.Min" && len(ce.Args) == 2 && es(ce.Args[1]) == "len(terms)" {
						if v, ok := intLit(ce.Args[0]); ok {
							val = v
							n++
						}
					}
				}
				return true
			})
			if x.Assert("searchparams:preserve-count", n == 1, "expected `preserveCount := utils.Min(<int>, len(terms))`") {
				setNat("preserveCount", val)
			}
		}

		// ---- rerankWithNLP: window and blend ----
		if fd := x.Func(dbp, "rerankWithNLP"); x.Assert("searchparams:rerankWithNLP", fd != nil, "rerankWithNLP not found") {
			mult, nm := "", 0
			alpha, na := "", 0
			scale, ns := "", 0
			ast.Inspect(fd.Body, func(nd ast.Node) bool {
				as, ok := nd.(*ast.AssignStmt)
				if !ok || len(as.Lhs) != 1 || len(as.Rhs) != 1 {
					return true
				}
				switch {
				case as.Tok == token.DEFINE && es(as.Lhs[0]) == "candidateLimit":
					if be, ok := as.Rhs[0].(*ast.BinaryExpr); ok && be.Op == token.MUL && es(be.X) == "options.Limit" {
						if v, ok := intLit(be.Y); ok {
							mult = v
							nm++
						}
					}
				case as.Tok == token.DEFINE && es(as.Lhs[0]) == "alpha":
					if v, ok := numLitQ(as.Rhs[0]); ok {
						alpha = v
						na++
					}
				case as.Tok == token.ADD_ASSIGN && es(as.Lhs[0]) == "topK[i].Score":
					// sim * alpha * <scale>
					if be, ok := as.Rhs[0].(*ast.BinaryExpr); ok && be.Op == token.MUL && es(be.X) == "sim * alpha" {
						if v, ok := numLitQ(be.Y); ok {
							scale = v
							ns++
						}
					}
				}
				return true
			})
			rhs, n := ifSet(fd, "candidateLimit < "+func() string {
				// the literal in the condition and in the assignment must agree; read it from the assignment
				for _, is := range ifStmts(fd) {
					if r, ok := singleAssign(is.Body, "candidateLimit"); ok {
						if v, ok := intLit(r); ok {
							return v
						}
					}
				}
				return "?"
			}(), "candidateLimit")
			minv, okMin := intLit(rhs)
			if x.Assert("searchparams:rerank-window", nm == 1 && n == 1 && okMin, "expected `candidateLimit := options.Limit * <int>; if candidateLimit < <m> { candidateLimit = <m> }`") {
				setNat("rerankMult", mult)
				setNat("rerankMin", minv)
			}
			if x.Assert("searchparams:rerank-blend", na == 1 && ns == 1, "expected `alpha := <float>` and `topK[i].Score += sim * alpha * <float>`") {
				setQ("rerankAlpha", alpha)
				setQ("rerankScale", scale)
			}
		}

		// ---- calculateInitialScores: NLP emphasis ----
		if fd := x.Func(dbp, "calculateInitialScores"); x.Assert("searchparams:calculateInitialScores", fd != nil, "calculateInitialScores not found") {
			emph := func(rangeOver, v string) (string, bool) {
				found, val := 0, ""
				ast.Inspect(fd.Body, func(nd ast.Node) bool {
					rs, ok := nd.(*ast.RangeStmt)
					if !ok || es(rs.X) != rangeOver || rs.Value == nil || es(rs.Value) != v || len(rs.Body.List) != 1 {
						return true
					}
					is, ok := rs.Body.List[0].(*ast.IfStmt)
					if !ok {
						return true
					}
					be, ok := is.Cond.(*ast.BinaryExpr)
					if !ok || be.Op != token.LSS || es(be.X) != "termBoost["+v+"]" {
						return true
					}
					rhs, ok := singleAssign(is.Body, "termBoost["+v+"]")
					if !ok || es(rhs) != es(be.Y) {
						return true
					}
					if qv, ok := numLitQ(rhs); ok {
						val = qv
						found++
					}
					return true
				})
				return val, found == 1
			}
			a, okA := emph("pq.Actions", "a")
			t, okT := emph("pq.Targets", "t")
			if x.Assert("searchparams:nlp-emphasis", okA && okT, "expected `for _, a := range pq.Actions { if termBoost[a] < X { termBoost[a] = X } }` and the same for pq.Targets") {
				setQ("actionEmphasis", a)
				setQ("targetEmphasis", t)
			}
		}

		// ---- collectResults: co-occurrence factor ----
		if fd := x.Func(dbp, "collectResults"); x.Assert("searchparams:collectResults", fd != nil, "collectResults not found") {
			val, n := "", 0
			for _, is := range ifStmts(fd) {
				if es(is.Cond) == "containsAnyLocal(docText, pq.Actions) && containsAnyLocal(docText, pq.Targets)" && len(is.Body.List) == 1 {
					if as, ok := is.Body.List[0].(*ast.AssignStmt); ok && as.Tok == token.MUL_ASSIGN && es(as.Lhs[0]) == "score" {
						if v, ok := numLitQ(as.Rhs[0]); ok {
							val = v
							n++
						}
					}
				}
			}
			if x.Assert("searchparams:cooccurrence", n == 1, "expected `if containsAnyLocal(docText, pq.Actions) && containsAnyLocal(docText, pq.Targets) { score *= <float> }`") {
				setQ("coocFactor", val)
			}
		}

		// ---- performFuzzySearch: candidate cap, normalisation base, clamp ----
		if fd := x.Func(dbp, "performFuzzySearch"); x.Assert("searchparams:performFuzzySearch", fd != nil, "performFuzzySearch not found") {
			mult, n := "", 0
			for _, is := range ifStmts(fd) {
				be, ok := is.Cond.(*ast.BinaryExpr)
				if !ok || be.Op != token.GEQ || es(be.X) != "len(results)" || len(is.Body.List) != 1 {
					continue
				}
				if _, ok := is.Body.List[0].(*ast.BranchStmt); !ok {
					continue
				}
				if m, ok := be.Y.(*ast.BinaryExpr); ok && m.Op == token.MUL && es(m.X) == "options.Limit" {
					if v, ok := intLit(m.Y); ok {
						mult = v
						n++
					}
				}
			}
			if x.Assert("searchparams:fuzzy-candidate-cap", n == 1, "expected `if len(results) >= options.Limit*<int> { break }`") {
				setNat("fuzzyMult", mult)
			}
			okNorm := false
			ast.Inspect(fd.Body, func(nd ast.Node) bool {
				if as, ok := nd.(*ast.AssignStmt); ok && as.Tok == token.DEFINE && len(as.Lhs) == 1 && es(as.Lhs[0]) == "normalizedScore" &&
					es(as.Rhs[0]) == "float64(match.Score + int(constants.FuzzyNormalizationBase)) / constants.FuzzyNormalizationBase" {
					okNorm = true
				}
				return true
			})
			base := ""
			if m, ok := x.out.Facts["constants"].(map[string]string); ok {
				base = m["FuzzyNormalizationBase"]
			}
			if x.Assert("searchparams:fuzzy-normalisation", okNorm && base != "" && !strings.ContainsAny(base, "./e"),
				"expected `normalizedScore := float64(match.Score+int(constants.FuzzyNormalizationBase)) / constants.FuzzyNormalizationBase` with an integral constant (got %q)", base) {
				setNat("fuzzyBase", base)
			}
			lo, nlo := ifSet(fd, "normalizedScore < 0", "normalizedScore")
			hi, nhi := ifSet(fd, "normalizedScore > 1", "normalizedScore")
			okClamp := nlo == 1 && nhi == 1 && es(lo) == "0" && es(hi) == "1"
			x.Assert("searchparams:fuzzy-clamp", okClamp, "expected `if normalizedScore < 0 { normalizedScore = 0 }` and `if normalizedScore > 1 { normalizedScore = 1 }`")
			setB("fuzzyClamped", okClamp)
		}

		// ---- legacy pipeline search: default limit is the constant; sortAndLimitResults truncates ----
		if fd := x.Func(dbp, "SearchWithPipelineOptions"); x.Assert("searchparams:SearchWithPipelineOptions", fd != nil, "SearchWithPipelineOptions not found") {
			rhs, n := ifSet(fd, "options.Limit <= 0", "options.Limit")
			ok := n == 1 && es(rhs) == "constants.DefaultSearchLimit"
			x.Assert("searchparams:legacy-default-limit", ok, "expected `if options.Limit <= 0 { options.Limit = constants.DefaultSearchLimit }`")
			setB("legacyDefaultIsConstant", ok)
			okRet := false
			if l := fd.Body.List; len(l) > 0 {
				if rs, isRet := l[len(l)-1].(*ast.ReturnStmt); isRet && len(rs.Results) == 1 && es(rs.Results[0]) == "db.sortAndLimitResults(results, options.Limit)" {
					okRet = true
				}
			}
			var okPos bool
			for _, is := range ifStmts(fd) {
				if es(is.Cond) == "score > 0" {
					okPos = true
				}
			}
			x.Assert("searchparams:legacy-shape", okRet && okPos, "expected `if score > 0 { append }` and `return db.sortAndLimitResults(results, options.Limit)`")
			setB("legacySortsAndLimits", okRet && okPos)
		}
		if fd := x.Func(dbp, "sortAndLimitResults"); x.Assert("searchparams:sortAndLimitResults", fd != nil, "sortAndLimitResults not found") {
			rhs, n := ifSet(fd, "len(results) > limit", "results")
			stable := false
			ast.Inspect(fd.Body, func(nd ast.Node) bool {
				if ce, ok := nd.(*ast.CallExpr); ok && es(ce.Fun) == "sort.SliceStable" && len(ce.Args) == 2 {
					if fl, ok := ce.Args[1].(*ast.FuncLit); ok && len(fl.Body.List) == 1 {
						if rs, ok := fl.Body.List[0].(*ast.ReturnStmt); ok && len(rs.Results) == 1 && es(rs.Results[0]) == "results[i].Score > results[j].Score" {
							stable = true
						}
					}
				}
				return true
			})
			ok := n == 1 && rhs != nil && es(rhs) == "results[:limit]" && stable
			x.Assert("searchparams:sortAndLimitResults-shape", ok, "expected sort.SliceStable(results, Score desc) then `if len(results) > limit { results = results[:limit] }`")
			setB("sortAndLimitShape", ok)
		}

		// ---- recovery searches: constant scores ----
		recScore := func(fn string) (string, bool) {
			fd := x.Func("internal/recovery", fn)
			if fd == nil {
				return "", false
			}
			val, n := "", 0
			ast.Inspect(fd.Body, func(nd ast.Node) bool {
				cl, ok := nd.(*ast.CompositeLit)
				if !ok || es(cl.Type) != "database.SearchResult" {
					return true
				}
				for _, e := range cl.Elts {
					if kv, ok := e.(*ast.KeyValueExpr); ok && es(kv.Key) == "Score" {
						if v, ok := numLitQ(kv.Value); ok {
							val = v
							n++
						}
					}
				}
				return true
			})
			return val, n == 1
		}
		b, okB := recScore("basicKeywordSearch")
		s1, okS := recScore("singleWordSearch")
		p, okP := recScore("partialMatchSearch")
		if x.Assert("searchparams:recovery-scores", okB && okS && okP, "expected one database.SearchResult{..., Score: <float>} literal in each recovery search") {
			setQ("recoveryBasicScore", b)
			setQ("recoverySingleWordScore", s1)
			setQ("recoveryPartialScore", p)
		}
		// RecoverFromSearchFailure tries the strategies in this order
		if fd := x.Func("internal/recovery", "RecoverFromSearchFailure"); x.Assert("searchparams:RecoverFromSearchFailure", fd != nil, "RecoverFromSearchFailure not found") {
			var fns []string
			ast.Inspect(fd.Body, func(nd ast.Node) bool {
				if kv, ok := nd.(*ast.KeyValueExpr); ok && es(kv.Key) == "fn" {
					fns = append(fns, es(kv.Value))
				}
				return true
			})
			ok := strings.Join(fns, ",") == "sr.basicKeywordSearch,sr.singleWordSearch,sr.partialMatchSearch"
			x.Assert("searchparams:recovery-order", ok, "expected strategies basicKeywordSearch, singleWordSearch, partialMatchSearch in that order; got %v", fns)
			setB("recoveryOrder", ok)
		}

		// ---- CLI: recovery truncated to searchOptions.Limit; config default; ValidateLimit maximum ----
		okCli, okFilt := false, false
		for _, f := range x.Pkg("internal/cli") {
			ast.Inspect(f, func(nd ast.Node) bool {
				is, ok := nd.(*ast.IfStmt)
				if !ok || es(is.Cond) != "len(results) == 0" {
					return true
				}
				for _, st := range is.Body.List {
					if as, ok := st.(*ast.AssignStmt); ok && len(as.Lhs) == 1 && es(as.Lhs[0]) == "recoveredResults" &&
						es(as.Rhs[0]) == "database.FilterResults(recoveredResults, searchOptions)" {
						okFilt = true
					}
				}
				// inside: if recoveryErr == nil && len(recoveredResults) > 0 { if len(recoveredResults) > searchOptions.Limit { recoveredResults = recoveredResults[:searchOptions.Limit] }; results = recoveredResults }
				ast.Inspect(is.Body, func(n2 ast.Node) bool {
					in, ok := n2.(*ast.IfStmt)
					if !ok || es(in.Cond) != "recoveryErr == nil && len(recoveredResults) > 0" || len(in.Body.List) != 2 {
						return true
					}
					tr, ok1 := in.Body.List[0].(*ast.IfStmt)
					as, ok2 := in.Body.List[1].(*ast.AssignStmt)
					if ok1 && ok2 && es(tr.Cond) == "len(recoveredResults) > searchOptions.Limit" && es(as.Lhs[0]) == "results" && es(as.Rhs[0]) == "recoveredResults" {
						if rhs, ok := singleAssign(tr.Body, "recoveredResults"); ok && es(rhs) == "recoveredResults[:searchOptions.Limit]" {
							okCli = true
						}
					}
					return true
				})
				return true
			})
		}
		x.Assert("searchparams:cli-recovery-truncated", okCli, "expected the recovery step of cli/search.go to cut recoveredResults to searchOptions.Limit before `results = recoveredResults`")
		setB("cliRecoveryTruncated", okCli)
		x.Assert("searchparams:cli-recovery-filtered", okFilt, "expected `recoveredResults = database.FilterResults(recoveredResults, searchOptions)` in the recovery step of cli/search.go")
		setB("cliRecoveryFiltered", okFilt)
		if fd := x.Func(dbp, "FilterResults"); x.Assert("searchparams:FilterResults", fd != nil, "database.FilterResults not found") {
			ok := false
			for _, is := range ifStmts(fd) {
				if es(is.Cond) == "r.Command != nil && passesFilters(r.Command, currentPlatform, options)" {
					ok = true
				}
			}
			x.Assert("searchparams:FilterResults-shape", ok, "expected FilterResults to keep exactly the results with `r.Command != nil && passesFilters(r.Command, currentPlatform, options)`")
			setB("filterResultsShape", ok)
		}
		if fd := x.Func("internal/config", "DefaultConfig"); x.Assert("searchparams:DefaultConfig", fd != nil, "config.DefaultConfig not found") {
			val, n := "", 0
			ast.Inspect(fd.Body, func(nd ast.Node) bool {
				if kv, ok := nd.(*ast.KeyValueExpr); ok && es(kv.Key) == "MaxResults" {
					if v, ok := intLit(kv.Value); ok {
						val = v
						n++
					}
				}
				return true
			})
			if x.Assert("searchparams:config-max-results", n == 1, "expected `MaxResults: <int>` in DefaultConfig") {
				setNat("configMaxResults", val)
			}
		}
		if fd := x.Func("internal/validation", "ValidateLimit"); x.Assert("searchparams:ValidateLimit", fd != nil, "ValidateLimit not found") {
			val := ""
			ast.Inspect(fd.Body, func(nd ast.Node) bool {
				if vs, ok := nd.(*ast.ValueSpec); ok && len(vs.Names) == 1 && vs.Names[0].Name == "maxLimit" && len(vs.Values) == 1 {
					if v, ok := intLit(vs.Values[0]); ok {
						val = v
					}
				}
				return true
			})
			var c0, c1, c2 bool
			for _, is := range ifStmts(fd) {
				switch es(is.Cond) {
				case "limit < 0":
					c0 = true
				case "limit == 0":
					if len(is.Body.List) == 1 {
						if rs, ok := is.Body.List[0].(*ast.ReturnStmt); ok && len(rs.Results) == 2 && es(rs.Results[0]) == "constants.DefaultSearchLimit" && es(rs.Results[1]) == "nil" {
							c1 = true
						}
					}
				case "limit > maxLimit":
					c2 = true
				}
			}
			if x.Assert("searchparams:validate-limit", val != "" && c0 && c1 && c2, "expected ValidateLimit: const maxLimit = <int>; limit < 0 -> error; limit == 0 -> constants.DefaultSearchLimit; limit > maxLimit -> error") {
				setNat("cliMaxLimit", val)
			}
		}

		var sb strings.Builder
		sb.WriteString("import WtfModel.Basic.Q\nnamespace Wtf.Gen.SearchParams\n\n")
		for _, k := range order {
			if v, ok := nat[k]; ok {
				fmt.Fprintf(&sb, "def %s : Nat := %s\n", k, v)
			} else if v, ok := q[k]; ok {
				fmt.Fprintf(&sb, "def %s : Wtf.Q := %s\n", k, v)
			} else {
				fmt.Fprintf(&sb, "def %s : Bool := %v\n", k, bl[k])
			}
		}
		sb.WriteString("\nend Wtf.Gen.SearchParams\n")
		x.WriteLean("SearchParams", sb.String())
		facts := map[string]string{}
		for k, v := range nat {
			facts[k] = v
		}
		for k, v := range q {
			facts[k] = v
		}
		for k, v := range bl {
			facts[k] = fmt.Sprint(v)
		}
		x.Fact("searchparams", facts)
	})
}
