package main

import (
	"fmt"
	"go/ast"
	"go/importer"
	"go/token"
	"go/types"
	"path/filepath"
	"sort"
	"strings"
)

// Sites (C02, C18): every `range` over a map-typed expression, every unstable sort and every other
// source of run-to-run variation (goroutines, channels, clocks, random numbers, %p) in the functions
// reachable from the search / suggestion / load / metric-key entry points, with a conservative
// classification of what each map range does with the iteration order.
//
//   insensitive : the body only stores into slots indexed by the range key, or returns a constant
//   repaired    : the body appends to a slice that the same function sorts (sort.Strings / sort.Ints)
//                 before anything else reads it
//   sensitive   : anything else (the default)

type srcImporter struct {
	base types.ImporterFrom
	dir  string
}

func (i srcImporter) Import(p string) (*types.Package, error) { return i.base.ImportFrom(p, i.dir, 0) }

type typedPkg struct {
	rel   string
	files []*ast.File
	info  *types.Info
	funcs map[string][]*ast.FuncDecl // by bare name (methods and functions)
}

func (x *X) typed(rel string) *typedPkg {
	files := x.Pkg(rel)
	names := make([]string, 0, len(files))
	for n := range files {
		names = append(names, n)
	}
	sort.Strings(names)
	tp := &typedPkg{rel: rel, funcs: map[string][]*ast.FuncDecl{},
		info: &types.Info{Types: map[ast.Expr]types.TypeAndValue{}, Uses: map[*ast.Ident]types.Object{}}}
	for _, n := range names {
		tp.files = append(tp.files, files[n])
	}
	base := importer.ForCompiler(x.Fset, "source", nil).(types.ImporterFrom)
	conf := types.Config{Importer: srcImporter{base, x.Repo}, Error: func(error) {}}
	_, err := conf.Check("github.com/Vedant9500/WTF/"+rel, x.Fset, tp.files, tp.info)
	x.Assert("sites:typecheck:"+rel, err == nil, "%v", err)
	for _, f := range tp.files {
		for _, d := range f.Decls {
			if fd, ok := d.(*ast.FuncDecl); ok && fd.Body != nil {
				tp.funcs[fd.Name.Name] = append(tp.funcs[fd.Name.Name], fd)
			}
		}
	}
	return tp
}

type site struct {
	File, Func, Kind, Class, Why string
	Line                         int
}

// isRangeKey: e is the range key or the range value variable (keys may be given as "k|v")
func isRangeKey(e ast.Expr, key string) bool {
	id, ok := e.(*ast.Ident)
	if !ok {
		return false
	}
	for _, k := range strings.Split(key, "|") {
		if k != "" && k != "_" && id.Name == k {
			return true
		}
	}
	return false
}

// classifyBody decides whether the statements of a map-range body depend on iteration order.
func classifyBody(body []ast.Stmt, key string, appended map[string]bool) (bool, string) {
	for _, st := range body {
		switch s := st.(type) {
		case *ast.IncDecStmt:
			ix, ok := s.X.(*ast.IndexExpr)
			if !ok || !isRangeKey(ix.Index, key) {
				return false, "increments something not indexed by the range key"
			}
		case *ast.AssignStmt:
			// s = append(s, ...)  (order-dependent unless the slice is sorted afterwards)
			if len(s.Lhs) == 1 && len(s.Rhs) == 1 {
				if call, ok := s.Rhs[0].(*ast.CallExpr); ok {
					if fn, ok := call.Fun.(*ast.Ident); ok && fn.Name == "append" && len(call.Args) >= 1 {
						if l, ok := s.Lhs[0].(*ast.Ident); ok {
							if a0, ok := call.Args[0].(*ast.Ident); ok && a0.Name == l.Name {
								appended[l.Name] = true
								continue
							}
						}
					}
				}
			}
			if s.Tok == token.DEFINE {
				allIdents := true
				for _, l := range s.Lhs {
					if _, ok := l.(*ast.Ident); !ok {
						allIdents = false
					}
				}
				if allIdents {
					continue // new locals
				}
			}
			for _, l := range s.Lhs {
				ix, ok := l.(*ast.IndexExpr)
				if !ok || !isRangeKey(ix.Index, key) {
					return false, "assigns to something not indexed by the range key"
				}
			}
		case *ast.IfStmt:
			if s.Init != nil || s.Else != nil {
				if s.Else != nil {
					if eb, ok := s.Else.(*ast.BlockStmt); ok {
						if ok2, why := classifyBody(eb.List, key, appended); !ok2 {
							return false, why
						}
					} else {
						return false, "else-if chain"
					}
				}
			}
			// `if cond { return <constant> }` : any-match, order-insensitive
			if len(s.Body.List) == 1 {
				if rs, ok := s.Body.List[0].(*ast.ReturnStmt); ok {
					constRet := true
					for _, r := range rs.Results {
						switch t := r.(type) {
						case *ast.BasicLit:
						case *ast.Ident:
							if t.Name != "true" && t.Name != "false" && t.Name != "nil" {
								constRet = false
							}
						default:
							constRet = false
						}
					}
					if constRet {
						continue
					}
					return false, "returns a value that depends on the element reached first"
				}
			}
			if ok, why := classifyBody(s.Body.List, key, appended); !ok {
				return false, why
			}
		case *ast.BranchStmt:
			if s.Tok != token.CONTINUE {
				return false, "break/goto inside a map range"
			}
		case *ast.RangeStmt:
			// nested range over a (non-map) slice: classify its body with the outer key
			if ok, why := classifyBody(s.Body.List, key, appended); !ok {
				// an inner loop may index by its own key
				k2 := ""
				if id, ok := s.Key.(*ast.Ident); ok {
					k2 = id.Name
				}
				if ok2, _ := classifyBody(s.Body.List, k2, appended); !ok2 {
					return false, why
				}
			}
		case *ast.DeclStmt, *ast.EmptyStmt:
		case *ast.ExprStmt:
			return false, "calls a function for its effect"
		default:
			return false, fmt.Sprintf("statement %T", st)
		}
	}
	return true, ""
}

// sortedAfter reports whether slice `name` is passed to sort.Strings / sort.Ints after position pos.
func sortedAfter(fd *ast.FuncDecl, name string, pos token.Pos) bool {
	found := false
	ast.Inspect(fd.Body, func(n ast.Node) bool {
		call, ok := n.(*ast.CallExpr)
		if !ok || call.Pos() < pos {
			return true
		}
		if se, ok := call.Fun.(*ast.SelectorExpr); ok {
			if pk, ok := se.X.(*ast.Ident); ok && pk.Name == "sort" && (se.Sel.Name == "Strings" || se.Sel.Name == "Ints") && len(call.Args) == 1 {
				if a, ok := call.Args[0].(*ast.Ident); ok && a.Name == name {
					found = true
				}
			}
		}
		return true
	})
	return found
}

func init() {
	register("d_sites", func(x *X) {
		pkgs := []*typedPkg{x.typed("internal/database"), x.typed("internal/nlp"), x.typed("internal/metrics"), x.typed("internal/embedding")}
		entries := []string{"SearchUniversal", "GetSuggestions", "LoadDatabase", "LoadDatabaseWithPersonal", "BuildUniversalIndex",
			"buildTFIDFSearcher", "NewTFIDFSearcher", "ProcessQuery", "GetEnhancedKeywords", "metricKey", "SearchWithPipelineOptions"}
		// reachability by bare name across the analysed packages (over-approximation)
		reach := map[string]bool{}
		var work []string
		for _, e := range entries {
			found := false
			for _, p := range pkgs {
				if len(p.funcs[e]) > 0 {
					found = true
				}
			}
			x.Assert("sites:entry:"+e, found, "entry point %s not found", e)
			reach[e] = true
			work = append(work, e)
		}
		for len(work) > 0 {
			n := work[0]
			work = work[1:]
			for _, p := range pkgs {
				for _, fd := range p.funcs[n] {
					ast.Inspect(fd.Body, func(nd ast.Node) bool {
						call, ok := nd.(*ast.CallExpr)
						if !ok {
							return true
						}
						name := ""
						var obj types.Object
						switch f := call.Fun.(type) {
						case *ast.Ident:
							name, obj = f.Name, p.info.Uses[f]
						case *ast.SelectorExpr:
							name, obj = f.Sel.Name, p.info.Uses[f.Sel]
						}
						// follow only callees that type-checking resolves into the analysed repo packages
						// (an unresolved callee is followed by name: conservative)
						if fn, ok := obj.(*types.Func); ok && (fn.Pkg() == nil || !strings.HasPrefix(fn.Pkg().Path(), "github.com/Vedant9500/WTF/")) {
							name = ""
						}
						if name != "" && !reach[name] {
							for _, q := range pkgs {
								if len(q.funcs[name]) > 0 {
									reach[name] = true
									work = append(work, name)
									break
								}
							}
						}
						return true
					})
				}
			}
		}
		var sites []site
		var other []site
		for _, p := range pkgs {
			names := make([]string, 0, len(p.funcs))
			for n := range p.funcs {
				if reach[n] {
					names = append(names, n)
				}
			}
			sort.Strings(names)
			for _, n := range names {
				for _, fd := range p.funcs[n] {
					file := filepath.Base(x.Fset.Position(fd.Pos()).Filename)
					ast.Inspect(fd.Body, func(nd ast.Node) bool {
						switch s := nd.(type) {
						case *ast.RangeStmt:
							tv, ok := p.info.Types[s.X]
							if !ok {
								sites = append(sites, site{file, n, "mapRange?", "sensitive", "untyped range expression", x.Fset.Position(s.Pos()).Line})
								return true
							}
							if _, isMap := tv.Type.Underlying().(*types.Map); !isMap {
								return true
							}
							key := ""
							if id, ok := s.Key.(*ast.Ident); ok {
								key = id.Name
							}
							if id, ok := s.Value.(*ast.Ident); ok {
								// the value variable indexes a distinct slot per key only if values are
								// distinct; accepted for maps used as key -> dense index (vocabulary)
								key += "|" + id.Name
							}
							appended := map[string]bool{}
							ok2, why := classifyBody(s.Body.List, key, appended)
							class := "insensitive"
							if !ok2 {
								class = "sensitive"
							} else if len(appended) > 0 {
								class = "repaired"
								why = "appends to a slice sorted afterwards"
								for a := range appended {
									if !sortedAfter(fd, a, s.End()) {
										class, why = "sensitive", "appends to slice "+a+" in map order and never sorts it"
									}
								}
							}
							sites = append(sites, site{file, n, "mapRange", class, why, x.Fset.Position(s.Pos()).Line})
						case *ast.CallExpr:
							if se, ok := s.Fun.(*ast.SelectorExpr); ok {
								if pk, ok := se.X.(*ast.Ident); ok {
									switch {
									case pk.Name == "sort" && se.Sel.Name == "Slice":
										sites = append(sites, site{file, n, "sortSlice", "unstable", "sort.Slice: deterministic but not stable", x.Fset.Position(s.Pos()).Line})
									case pk.Name == "rand", pk.Name == "time" && (se.Sel.Name == "Now" || se.Sel.Name == "Since"):
										other = append(other, site{file, n, pk.Name + "." + se.Sel.Name, "nondet", "", x.Fset.Position(s.Pos()).Line})
									}
								}
							}
						case *ast.GoStmt:
							other = append(other, site{file, n, "go", "nondet", "", x.Fset.Position(s.Pos()).Line})
						case *ast.SelectStmt:
							other = append(other, site{file, n, "select", "nondet", "", x.Fset.Position(s.Pos()).Line})
						case *ast.SendStmt:
							other = append(other, site{file, n, "chan-send", "nondet", "", x.Fset.Position(s.Pos()).Line})
						}
						return true
					})
				}
			}
		}
		sort.Slice(sites, func(i, j int) bool {
			if sites[i].File != sites[j].File {
				return sites[i].File < sites[j].File
			}
			return sites[i].Line < sites[j].Line
		})
		var sb strings.Builder
		sb.WriteString("namespace Wtf.Gen.Sites\n\ninductive Class where | insensitive | repaired | sensitive | unstable | nondet\nderiving DecidableEq, Repr\n\n")
		sb.WriteString("structure Site where\n  file : String\n  func : String\n  kind : String\n  cls : Class\n  why : String\nderiving Repr\n\n")
		emit := func(name string, ss []site) {
			fmt.Fprintf(&sb, "def %s : List Site := [\n", name)
			for i, s := range ss {
				fmt.Fprintf(&sb, "  { file := %s, func := %s, kind := %s, cls := .%s, why := %s }", leanStr(s.File), leanStr(s.Func), leanStr(s.Kind), s.Class, leanStr(s.Why))
				if i < len(ss)-1 {
					sb.WriteString(",")
				}
				sb.WriteString("\n")
			}
			sb.WriteString("]\n\n")
		}
		emit("sites", sites)
		emit("otherNondet", other)
		sb.WriteString("end Wtf.Gen.Sites\n")
		x.WriteLean("Sites", sb.String())
		x.Fact("sites", sites)
		x.Fact("sites.other", other)
		rn := make([]string, 0, len(reach))
		for n := range reach {
			rn = append(rn, n)
		}
		sort.Strings(rn)
		x.Fact("sites.reachable", rn)
	})
}
