package main

// LockFacts (C11): which lock every method of the cache / metrics types takes, which receiver fields
// it reads, writes or touches atomically while holding which lock, which methods it calls; the
// closure of methods reachable from the operations C11 quantifies over; and the set of shared-state
// writes reachable from Database.SearchUniversal together with the guard they sit under.
//
// The analysis is type-based (go/types over the module's own sources; the standard library through
// the source importer; third-party modules as empty stand-ins, which only costs type information on
// the few expressions that use them).  It is deliberately conservative: whatever it cannot classify
// is reported either as `irregular` (lock protocol / receiver escapes) or as a write.
//
// Names used for memory:  "f"   the field slot itself (a scalar, or the pointer/map/slice header),
//                         "f[]" what the slot refers to (map contents, list nodes, slice elements),
//                         "<heap>" objects reached through a pointer that was read out of a field
//                                  (the *Entry behind a list element).

import (
	"bytes"
	"fmt"
	"go/ast"
	"go/build/constraint"
	"go/importer"
	"go/parser"
	"go/printer"
	"go/token"
	"go/types"
	"os"
	"path/filepath"
	"sort"
	"strings"
)

// ---------------------------------------------------------------------------------------------
// loading
// ---------------------------------------------------------------------------------------------

type lfPkg struct {
	path  string
	files []*ast.File
	info  *types.Info
	tpkg  *types.Package
	errs  []string
}

type lfFunc struct {
	obj  *types.Func
	decl *ast.FuncDecl
	pkg  *lfPkg
}

type lfWorld struct {
	x     *X
	mod   string
	fset  *token.FileSet
	src   types.Importer
	pkgs  map[string]*lfPkg
	other map[string]*types.Package
	funcs map[*types.Func]*lfFunc
}

func lfBuildOK(f *ast.File) bool {
	for _, cg := range f.Comments {
		if cg.Pos() >= f.Package {
			break
		}
		for _, c := range cg.List {
			if !constraint.IsGoBuild(c.Text) {
				continue
			}
			e, err := constraint.Parse(c.Text)
			if err != nil {
				continue
			}
			return e.Eval(func(tag string) bool {
				return tag == "linux" || tag == "amd64" || tag == "unix" || tag == "gc" || strings.HasPrefix(tag, "go1.")
			})
		}
	}
	return true
}

func (w *lfWorld) Import(path string) (*types.Package, error) {
	if p, ok := w.pkgs[path]; ok {
		return p.tpkg, nil
	}
	if p, ok := w.other[path]; ok {
		return p, nil
	}
	if path == w.mod || strings.HasPrefix(path, w.mod+"/") {
		dir := filepath.Join(w.x.Repo, strings.TrimPrefix(path, w.mod))
		ents, err := os.ReadDir(dir)
		if err != nil {
			return nil, err
		}
		p := &lfPkg{path: path}
		for _, e := range ents {
			n := e.Name()
			if e.IsDir() || !strings.HasSuffix(n, ".go") || strings.HasSuffix(n, "_test.go") {
				continue
			}
			f, err := parser.ParseFile(w.fset, filepath.Join(dir, n), nil, parser.ParseComments)
			if err != nil {
				return nil, err
			}
			if lfBuildOK(f) {
				p.files = append(p.files, f)
			}
		}
		p.info = &types.Info{
			Uses: map[*ast.Ident]types.Object{}, Defs: map[*ast.Ident]types.Object{},
			Selections: map[*ast.SelectorExpr]*types.Selection{}, Types: map[ast.Expr]types.TypeAndValue{},
		}
		w.pkgs[path] = p // (import cycles are impossible in a program that compiles)
		conf := types.Config{Importer: w, Error: func(err error) { p.errs = append(p.errs, err.Error()) }}
		p.tpkg, _ = conf.Check(path, w.fset, p.files, p.info)
		for _, f := range p.files {
			for _, d := range f.Decls {
				if fd, ok := d.(*ast.FuncDecl); ok && fd.Body != nil {
					if obj, ok := p.info.Defs[fd.Name].(*types.Func); ok {
						w.funcs[obj] = &lfFunc{obj, fd, p}
					}
				}
			}
		}
		return p.tpkg, nil
	}
	if !strings.Contains(strings.Split(path, "/")[0], ".") { // standard library
		p, err := w.src.Import(path)
		if err == nil {
			w.other[path] = p
			return p, nil
		}
	}
	// third-party module: an empty stand-in (uses of it become type errors that are tolerated below)
	parts := strings.Split(path, "/")
	name := parts[len(parts)-1]
	if i := strings.Index(name, "."); i > 0 {
		name = name[:i]
	}
	p := types.NewPackage(path, name)
	p.MarkComplete()
	w.other[path] = p
	return p, nil
}

func lfModulePath(repo string) string {
	b, err := os.ReadFile(filepath.Join(repo, "go.mod"))
	if err != nil {
		return ""
	}
	for _, l := range strings.Split(string(b), "\n") {
		l = strings.TrimSpace(l)
		if strings.HasPrefix(l, "module ") {
			return strings.TrimSpace(strings.TrimPrefix(l, "module "))
		}
	}
	return ""
}

func (w *lfWorld) text(n ast.Node) string {
	var b bytes.Buffer
	printer.Fprint(&b, w.fset, n)
	return strings.Join(strings.Fields(b.String()), " ")
}

func (w *lfWorld) inModule(o types.Object) bool {
	return o != nil && o.Pkg() != nil && (o.Pkg().Path() == w.mod || strings.HasPrefix(o.Pkg().Path(), w.mod+"/"))
}

func lfNamed(t types.Type) *types.Named {
	for {
		switch u := t.(type) {
		case *types.Pointer:
			t = u.Elem()
		case *types.Named:
			return u
		case *types.Alias:
			t = types.Unalias(u)
		default:
			return nil
		}
	}
}

func lfRefLike(t types.Type) bool {
	if t == nil {
		return false
	}
	switch t.Underlying().(type) {
	case *types.Pointer, *types.Map, *types.Slice, *types.Chan, *types.Interface, *types.Signature:
		return true
	}
	return false
}

func lfFresh(e ast.Expr) bool {
	switch v := e.(type) {
	case *ast.CompositeLit, *ast.BasicLit, *ast.FuncLit:
		return true
	case *ast.UnaryExpr:
		if v.Op == token.AND {
			_, ok := v.X.(*ast.CompositeLit)
			return ok
		}
	case *ast.CallExpr:
		if id, ok := v.Fun.(*ast.Ident); ok && (id.Name == "make" || id.Name == "new") {
			return true
		}
	case *ast.Ident:
		return v.Name == "nil"
	}
	return false
}

// funcName: "pkg.Type.method" / "pkg.func"
func lfFuncName(f *types.Func) string {
	f = f.Origin()
	pk := ""
	if f.Pkg() != nil {
		pk = f.Pkg().Name() + "."
	}
	if sig, ok := f.Type().(*types.Signature); ok && sig.Recv() != nil {
		if n := lfNamed(sig.Recv().Type()); n != nil {
			return pk + n.Obj().Name() + "." + f.Name()
		}
	}
	return pk + f.Name()
}

// every module function referenced (called or taken as a value) in a node
func (w *lfWorld) refs(p *lfPkg, n ast.Node) (out []*types.Func, dynamic []string) {
	seen := map[*types.Func]bool{}
	ast.Inspect(n, func(m ast.Node) bool {
		id, ok := m.(*ast.Ident)
		if !ok {
			return true
		}
		if f, ok := p.info.Uses[id].(*types.Func); ok {
			f = f.Origin()
			if w.inModule(f) {
				if _, has := w.funcs[f]; has {
					if !seen[f] {
						seen[f] = true
						out = append(out, f)
					}
				} else if sig, ok := f.Type().(*types.Signature); ok && sig.Recv() != nil && types.IsInterface(sig.Recv().Type()) {
					dynamic = append(dynamic, lfFuncName(f))
				}
			}
		}
		return true
	})
	return
}

// ---------------------------------------------------------------------------------------------
// per-method lock / access facts
// ---------------------------------------------------------------------------------------------

type lfPhase struct {
	Lock      string   `json:"lock"`
	Reads     []string `json:"reads"`
	Writes    []string `json:"writes"`
	Atomics   []string `json:"atomics"`
	SelfCalls []string `json:"selfCalls"`
}

type lfMethod struct {
	Typ       string     `json:"typ"`
	Name      string     `json:"name"`
	Phases    []*lfPhase `json:"phases"`
	Irregular []string   `json:"irregular"`
	ExtCalls  []string   `json:"extCalls"`
	InScope   bool       `json:"inScope"`
	Entry     bool       `json:"entry"` // callable from outside the type's own methods (exported, or referenced elsewhere)
	fn        *lfFunc
}

type lfType struct {
	Name   string   `json:"name"`
	Pkg    string   `json:"pkg"`
	Mutex  string   `json:"mutex"`
	Fields []string `json:"fields"`
	named  *types.Named
}

func addUniq(l *[]string, s string) {
	for _, x := range *l {
		if x == s {
			return
		}
	}
	*l = append(*l, s)
}

type lfAnalyzer struct {
	w       *lfWorld
	tracked map[*types.TypeName]*lfType
	pseudo  map[*types.Func]int              // function -> index of the parameter that plays the receiver
	alias   map[*types.Func]map[int][]string // pseudo-method -> param index -> receiver fields bound at call sites
}

type lfCtx struct {
	a      *lfAnalyzer
	f      *lfFunc
	m      *lfMethod
	ty     *lfType
	base   *types.Var
	alias  map[*types.Var][]string // parameters standing for receiver fields
	taint  map[*types.Var]bool
	cur    *lfPhase
	lock   string
	defer_ bool
}

func (c *lfCtx) irr(n ast.Node, format string, a ...interface{}) {
	pos := c.a.w.fset.Position(n.Pos())
	addUniq(&c.m.Irregular, fmt.Sprintf("%s (line %d)", fmt.Sprintf(format, a...), pos.Line))
}

func (c *lfCtx) newPhase(lock string) {
	c.lock = lock
	c.cur = &lfPhase{Lock: lock, Reads: []string{}, Writes: []string{}, Atomics: []string{}, SelfCalls: []string{}}
	c.m.Phases = append(c.m.Phases, c.cur)
}

func (c *lfCtx) info() *types.Info { return c.f.pkg.info }

func (c *lfCtx) isBase(e ast.Expr) bool {
	e = ast.Unparen(e)
	id, ok := e.(*ast.Ident)
	return ok && c.info().Uses[id] == c.base
}

// baseField: e is `base.f` for a field f of the tracked type
func (c *lfCtx) baseField(e ast.Expr) (string, *types.Var, bool) {
	sel, ok := ast.Unparen(e).(*ast.SelectorExpr)
	if !ok || !c.isBase(sel.X) {
		return "", nil, false
	}
	if s := c.info().Selections[sel]; s != nil && s.Kind() == types.FieldVal {
		v := s.Obj().(*types.Var)
		return v.Name(), v, true
	}
	return "", nil, false
}

// otherField: e is `x.f` where x is (a pointer to) ANOTHER tracked object: a direct access to that
// object's field, bypassing its methods.  Reported as "Type.f".
func (c *lfCtx) otherField(e ast.Expr) (string, bool) {
	sel, ok := ast.Unparen(e).(*ast.SelectorExpr)
	if !ok || c.isBase(sel.X) {
		return "", false
	}
	if s := c.info().Selections[sel]; s != nil && s.Kind() == types.FieldVal {
		if t := c.info().TypeOf(sel.X); t != nil {
			if lt := c.a.tracked[typeNameOf(t)]; lt != nil {
				return lt.Name + "." + sel.Sel.Name, true
			}
		}
	}
	return "", false
}

func (c *lfCtx) localVar(e ast.Expr) *types.Var {
	id, ok := ast.Unparen(e).(*ast.Ident)
	if !ok {
		return nil
	}
	if v, ok := c.info().Uses[id].(*types.Var); ok {
		return v
	}
	if v, ok := c.info().Defs[id].(*types.Var); ok {
		return v
	}
	return nil
}

// mentionsShared: the expression reads a receiver field, an alias parameter or a tainted local
func (c *lfCtx) mentionsShared(e ast.Expr) bool {
	found := false
	ast.Inspect(e, func(n ast.Node) bool {
		switch v := n.(type) {
		case *ast.SelectorExpr:
			if _, _, ok := c.baseField(v); ok {
				found = true
			}
		case *ast.Ident:
			if o, ok := c.info().Uses[v].(*types.Var); ok && (c.taint[o] || c.alias[o] != nil) {
				found = true
			}
		}
		return !found
	})
	return found
}

func (c *lfCtx) computeTaint(body *ast.BlockStmt) {
	mark := func(lhs ast.Expr, rhs ast.Expr) bool {
		id, ok := lhs.(*ast.Ident)
		if !ok || id.Name == "_" {
			return false
		}
		v, _ := c.info().Defs[id].(*types.Var)
		if v == nil {
			v, _ = c.info().Uses[id].(*types.Var)
		}
		if v == nil || v == c.base || c.taint[v] || !lfRefLike(v.Type()) {
			return false
		}
		if rhs == nil || lfFresh(rhs) || !c.mentionsShared(rhs) {
			return false
		}
		c.taint[v] = true
		return true
	}
	for changed := true; changed; {
		changed = false
		ast.Inspect(body, func(n ast.Node) bool {
			switch s := n.(type) {
			case *ast.AssignStmt:
				for i, l := range s.Lhs {
					var r ast.Expr
					if len(s.Rhs) == len(s.Lhs) {
						r = s.Rhs[i]
					} else if len(s.Rhs) == 1 {
						r = s.Rhs[0]
					}
					if mark(l, r) {
						changed = true
					}
				}
			case *ast.RangeStmt:
				for _, l := range []ast.Expr{s.Key, s.Value} {
					if l != nil && mark(l, s.X) {
						changed = true
					}
				}
			case *ast.ValueSpec:
				for i, id := range s.Names {
					if i < len(s.Values) && mark(id, s.Values[i]) {
						changed = true
					}
				}
			}
			return true
		})
	}
}

func (c *lfCtx) read(name string)  { addUniq(&c.cur.Reads, name) }
func (c *lfCtx) write(name string) { addUniq(&c.cur.Writes, name) }

var lfListMut = map[string]bool{"MoveToFront": true, "MoveToBack": true, "MoveBefore": true, "MoveAfter": true,
	"PushFront": true, "PushBack": true, "Remove": true, "Init": true, "InsertBefore": true, "InsertAfter": true,
	"PushBackList": true, "PushFrontList": true}
var lfListRead = map[string]bool{"Len": true, "Front": true, "Back": true, "Next": true, "Prev": true}

func lfTypeString(t types.Type) string {
	if t == nil {
		return ""
	}
	return types.TypeString(t, func(p *types.Package) string { return p.Path() })
}

func (c *lfCtx) isMutexField(v *types.Var) bool {
	s := lfTypeString(v.Type())
	return s == "sync.RWMutex" || s == "sync.Mutex" || s == "*sync.RWMutex" || s == "*sync.Mutex"
}

// lockOp recognises base.mu.{Lock,RLock,Unlock,RUnlock}()
func (c *lfCtx) lockOp(e ast.Expr) (string, bool) {
	call, ok := e.(*ast.CallExpr)
	if !ok {
		return "", false
	}
	sel, ok := call.Fun.(*ast.SelectorExpr)
	if !ok {
		return "", false
	}
	_, fv, ok := c.baseField(sel.X)
	if !ok || !c.isMutexField(fv) {
		return "", false
	}
	return sel.Sel.Name, true
}

// target of a store: classify the left-hand side
func (c *lfCtx) store(lhs ast.Expr) {
	lhs = ast.Unparen(lhs)
	switch v := lhs.(type) {
	case *ast.Ident:
		if v.Name != "_" && c.info().Uses[v] == c.base {
			c.irr(v, "receiver reassigned")
		}
		if o, ok := c.info().Uses[v].(*types.Var); ok && o.Parent() == o.Pkg().Scope() {
			c.write("<global " + o.Name() + ">")
		}
		return
	case *ast.SelectorExpr:
		if name, _, ok := c.baseField(v); ok {
			c.write(name)
			return
		}
		if q, ok := c.otherField(v); ok {
			c.expr(v.X)
			c.write(q)
			return
		}
		c.storeThrough(v.X, v)
	case *ast.IndexExpr:
		c.expr(v.Index)
		c.storeThrough(v.X, v)
	case *ast.StarExpr:
		c.storeThrough(v.X, v)
	default:
		c.irr(lhs, "unclassified store target %s", c.a.w.text(lhs))
		c.write("?")
	}
}

// storeThrough: a store into something reached from `x` (x.f = , x[i] = , *x = )
func (c *lfCtx) storeThrough(x ast.Expr, whole ast.Expr) {
	x = ast.Unparen(x)
	if name, _, ok := c.baseField(x); ok {
		c.read(name)
		c.write(name + "[]")
		return
	}
	if c.isBase(x) { // *base = …
		c.irr(whole, "store through the receiver itself")
		c.write("?")
		return
	}
	if v := c.localVar(x); v != nil {
		if al := c.alias[v]; al != nil {
			for _, f := range al {
				c.write(f + "[]")
			}
			return
		}
		if c.taint[v] {
			c.write("<heap>")
		}
		// otherwise: a local, or data owned by the caller -- not the receiver's state
		return
	}
	// deeper chain: x is itself x'.g / x'[i] / call(): find out whether it is rooted in receiver state
	if c.mentionsShared(x) {
		c.expr(x)
		if root, ok := c.rootField(x); ok {
			c.write(root + "[]")
		} else {
			c.write("<heap>")
		}
	} else {
		c.expr(x)
	}
}

// rootField: the receiver field an access chain starts from (base.f.g[i].h -> f)
func (c *lfCtx) rootField(e ast.Expr) (string, bool) {
	for {
		e = ast.Unparen(e)
		if name, _, ok := c.baseField(e); ok {
			return name, true
		}
		switch v := e.(type) {
		case *ast.SelectorExpr:
			e = v.X
		case *ast.IndexExpr:
			e = v.X
		case *ast.StarExpr:
			e = v.X
		case *ast.SliceExpr:
			e = v.X
		case *ast.TypeAssertExpr:
			e = v.X
		default:
			return "", false
		}
	}
}

func (c *lfCtx) methodOf(sel *ast.SelectorExpr) *types.Func {
	if s := c.info().Selections[sel]; s != nil && s.Kind() == types.MethodVal {
		if f, ok := s.Obj().(*types.Func); ok {
			return f.Origin()
		}
	}
	if f, ok := c.info().Uses[sel.Sel].(*types.Func); ok {
		return f.Origin()
	}
	return nil
}

func (c *lfCtx) trackedRecv(f *types.Func) *lfType {
	if f == nil {
		return nil
	}
	sig, ok := f.Type().(*types.Signature)
	if !ok || sig.Recv() == nil {
		return nil
	}
	if n := lfNamed(sig.Recv().Type()); n != nil {
		return c.a.tracked[n.Obj()]
	}
	return nil
}

func (c *lfCtx) call(call *ast.CallExpr) {
	info := c.info()
	// conversions
	if tv, ok := info.Types[call.Fun]; ok && tv.IsType() {
		for _, a := range call.Args {
			c.expr(a)
		}
		return
	}
	if _, isLock := c.lockOp(call); isLock {
		c.irr(call, "lock operation in an unexpected position: %s", c.a.w.text(call))
		return
	}
	switch fun := ast.Unparen(call.Fun).(type) {
	case *ast.Ident:
		if b, ok := info.Uses[fun].(*types.Builtin); ok {
			switch b.Name() {
			case "delete", "clear":
				c.storeThrough(call.Args[0], call)
				for _, a := range call.Args[1:] {
					c.expr(a)
				}
			case "copy":
				c.storeThrough(call.Args[0], call)
				c.expr(call.Args[1])
				c.derefRead(call.Args[1])
			default:
				for _, a := range call.Args {
					c.expr(a)
					if b.Name() == "len" || b.Name() == "cap" {
						c.derefRead(a)
					}
				}
			}
			return
		}
	case *ast.SelectorExpr:
		// sync/atomic on a receiver field
		if pk, ok := ast.Unparen(fun.X).(*ast.Ident); ok {
			if pn, ok := info.Uses[pk].(*types.PkgName); ok && pn.Imported().Path() == "sync/atomic" {
				for i, a := range call.Args {
					if u, ok := ast.Unparen(a).(*ast.UnaryExpr); ok && i == 0 && u.Op == token.AND {
						if name, _, ok := c.baseField(u.X); ok {
							addUniq(&c.cur.Atomics, name)
							continue
						}
					}
					c.expr(a)
				}
				return
			}
		}
		// a method call
		if m := c.methodOf(fun); m != nil && info.Selections[fun] != nil {
			recvX := ast.Unparen(fun.X)
			if c.isBase(recvX) {
				if c.trackedRecv(m) == c.ty {
					addUniq(&c.cur.SelfCalls, m.Name())
				} else {
					c.irr(call, "receiver used as %s", lfFuncName(m))
				}
				for _, a := range call.Args {
					c.arg(a, nil, 0)
				}
				return
			}
			if name, fv, ok := c.baseField(recvX); ok {
				ts := lfTypeString(fv.Type())
				switch {
				case strings.HasPrefix(ts, "sync/atomic."):
					// a field of type atomic.Bool / Int64 / Pointer[T] … : every method is an atomic access
					addUniq(&c.cur.Atomics, name)
				case c.trackedRecv(m) != nil:
					c.read(name)
					addUniq(&c.m.ExtCalls, c.trackedRecv(m).Name+"."+m.Name())
				case ts == "*container/list.List" && lfListMut[m.Name()]:
					c.read(name)
					c.write(name + "[]")
				case ts == "*container/list.List" && lfListRead[m.Name()]:
					c.read(name)
					c.read(name + "[]")
				default:
					c.read(name)
					c.irr(call, "unclassified method %s on field %s", lfFuncName(m), name)
					c.write(name + "[]")
				}
				for _, a := range call.Args {
					c.arg(a, nil, 0)
				}
				return
			}
			if tt := c.trackedRecv(m); tt != nil {
				addUniq(&c.m.ExtCalls, tt.Name+"."+m.Name())
				c.expr(fun.X)
				for _, a := range call.Args {
					c.arg(a, nil, 0)
				}
				return
			}
			// method on something else
			if c.mentionsShared(recvX) {
				c.expr(recvX)
				ts := lfTypeString(info.TypeOf(recvX))
				if ts == "*container/list.Element" && lfListRead[m.Name()] {
					c.read("<heap>")
				} else if lfRefLike(info.TypeOf(recvX)) {
					c.irr(call, "unclassified method %s on data read from the receiver", lfFuncName(m))
					c.write("<heap>")
				}
			} else {
				c.expr(fun.X)
			}
			for _, a := range call.Args {
				c.arg(a, nil, 0)
			}
			return
		}
	}
	// plain function call (module function, external function, function value)
	var callee *types.Func
	switch fun := ast.Unparen(call.Fun).(type) {
	case *ast.Ident:
		callee, _ = info.Uses[fun].(*types.Func)
	case *ast.SelectorExpr:
		callee, _ = info.Uses[fun.Sel].(*types.Func)
	case *ast.IndexExpr: // explicit instantiation f[T](…)
		if id, ok := fun.X.(*ast.Ident); ok {
			callee, _ = info.Uses[id].(*types.Func)
		}
	case *ast.FuncLit:
		c.block(fun.Body.List, 1)
	default:
		c.expr(call.Fun)
	}
	if callee != nil {
		callee = callee.Origin()
	}
	for i, a := range call.Args {
		c.arg(a, callee, i)
	}
}

// arg: an argument expression of a call to `callee` (nil when unknown / method)
func (c *lfCtx) arg(a ast.Expr, callee *types.Func, idx int) {
	au := ast.Unparen(a)
	if c.isBase(au) {
		if callee != nil {
			if pi, ok := c.a.pseudo[callee]; ok && pi == idx {
				addUniq(&c.cur.SelfCalls, callee.Name())
				return
			}
		}
		c.irr(a, "receiver escapes as an argument")
		c.write("?")
		return
	}
	if name, fv, ok := c.baseField(au); ok {
		c.read(name)
		if callee != nil {
			if _, ok := c.a.pseudo[callee]; ok && c.a.alias[callee][idx] != nil {
				return // bound to an alias parameter of a pseudo-method: accounted for there
			}
		}
		if lfRefLike(fv.Type()) && c.a.tracked[typeNameOf(fv.Type())] == nil {
			c.irr(a, "field %s passed by reference to a call", name)
			c.write(name + "[]")
		}
		return
	}
	if u, ok := au.(*ast.UnaryExpr); ok && u.Op == token.AND {
		if name, _, ok := c.baseField(u.X); ok {
			c.irr(a, "address of field %s escapes", name)
			c.write(name)
			return
		}
	}
	if v := c.localVar(au); v != nil && c.taint[v] && lfRefLike(v.Type()) {
		// a pointer into the receiver's data handed to another function
		if callee != nil && c.a.w.inModule(callee) {
			if tt := c.trackedParamType(callee, idx); tt == c.ty {
				return // e.g. removeElement(element): the callee is analysed as a method of the same type
			}
		}
		ts := lfTypeString(v.Type())
		if ts == "*container/list.Element" {
			return // list nodes are only ever passed to container/list mutators, which are classified at the call
		}
		c.irr(a, "data read from the receiver passed by reference")
		c.write("<heap>")
		return
	}
	c.expr(a)
}

func typeNameOf(t types.Type) *types.TypeName {
	if n := lfNamed(t); n != nil {
		return n.Obj()
	}
	return nil
}

func (c *lfCtx) trackedParamType(f *types.Func, idx int) *lfType {
	sig := f.Type().(*types.Signature)
	if sig.Recv() != nil {
		if n := lfNamed(sig.Recv().Type()); n != nil {
			return c.a.tracked[n.Obj()]
		}
	}
	return nil
}

// derefRead: reading what a field / alias / tainted pointer refers to
func (c *lfCtx) derefRead(x ast.Expr) {
	x = ast.Unparen(x)
	if name, _, ok := c.baseField(x); ok {
		c.read(name + "[]")
		return
	}
	if v := c.localVar(x); v != nil {
		if al := c.alias[v]; al != nil {
			for _, f := range al {
				c.read(f + "[]")
			}
		} else if c.taint[v] {
			c.read("<heap>")
		}
		return
	}
	if c.mentionsShared(x) {
		if root, ok := c.rootField(x); ok {
			c.read(root + "[]")
		} else {
			c.read("<heap>")
		}
	}
}

// expr: an expression evaluated for its value
func (c *lfCtx) expr(e ast.Expr) {
	if e == nil {
		return
	}
	switch v := e.(type) {
	case *ast.ParenExpr:
		c.expr(v.X)
	case *ast.Ident:
		if c.info().Uses[v] == c.base {
			c.irr(v, "receiver used as a value")
			c.write("?")
		}
		if o, ok := c.info().Uses[v].(*types.Var); ok && o.Pkg() != nil && o.Parent() == o.Pkg().Scope() {
			c.read("<global " + o.Name() + ">")
		}
	case *ast.SelectorExpr:
		if name, _, ok := c.baseField(v); ok {
			c.read(name)
			return
		}
		if c.isBase(v.X) { // method value base.M
			c.irr(v, "method value %s", c.a.w.text(v))
			return
		}
		if q, ok := c.otherField(v); ok {
			c.expr(v.X)
			c.read(q)
			return
		}
		if _, ok := c.info().Uses[v.Sel].(*types.Func); ok && c.info().Selections[v] == nil {
			return // pkg.Func
		}
		if _, ok := ast.Unparen(v.X).(*ast.Ident); ok {
			if _, isPkg := c.info().Uses[ast.Unparen(v.X).(*ast.Ident)].(*types.PkgName); isPkg {
				return // pkg.Const / pkg.Var of another package
			}
		}
		c.expr(v.X)
		if t := c.info().TypeOf(v.X); t != nil {
			if _, isPtr := t.Underlying().(*types.Pointer); isPtr {
				c.derefRead(v.X)
			}
		}
	case *ast.IndexExpr:
		c.expr(v.X)
		c.expr(v.Index)
		c.derefRead(v.X)
	case *ast.SliceExpr:
		c.expr(v.X)
		c.expr(v.Low)
		c.expr(v.High)
		c.expr(v.Max)
	case *ast.StarExpr:
		c.expr(v.X)
		c.derefRead(v.X)
	case *ast.UnaryExpr:
		if v.Op == token.AND {
			if name, _, ok := c.baseField(v.X); ok {
				c.irr(v, "address of field %s taken", name)
				c.write(name)
				return
			}
		}
		c.expr(v.X)
	case *ast.BinaryExpr:
		c.expr(v.X)
		c.expr(v.Y)
	case *ast.CallExpr:
		c.call(v)
	case *ast.TypeAssertExpr:
		c.expr(v.X)
	case *ast.CompositeLit:
		for _, el := range v.Elts {
			if kv, ok := el.(*ast.KeyValueExpr); ok {
				if _, isId := kv.Key.(*ast.Ident); !isId {
					c.expr(kv.Key)
				}
				c.expr(kv.Value)
			} else {
				c.expr(el)
			}
		}
	case *ast.KeyValueExpr:
		c.expr(v.Value)
	case *ast.FuncLit:
		if c.lock != "none" {
			c.irr(v, "closure created while holding the lock")
		}
		c.block(v.Body.List, 1)
	case *ast.BasicLit, *ast.ArrayType, *ast.MapType, *ast.StructType, *ast.FuncType, *ast.InterfaceType, *ast.ChanType, *ast.Ellipsis:
	default:
		c.irr(e, "unclassified expression %T", e)
		c.write("?")
	}
}

func lfEndsInReturn(list []ast.Stmt) bool {
	if len(list) == 0 {
		return false
	}
	_, ok := list[len(list)-1].(*ast.ReturnStmt)
	return ok
}

// block: statements in order; depth 0 is the function body itself
func (c *lfCtx) block(list []ast.Stmt, depth int) {
	saved, savedLock := c.cur, c.lock
	restore := false
	for _, st := range list {
		switch s := st.(type) {
		case *ast.ExprStmt:
			if op, ok := c.lockOp(s.X); ok {
				switch op {
				case "Lock", "RLock":
					kind := map[string]string{"Lock": "exclusive", "RLock": "shared"}[op]
					if depth > 0 {
						c.irr(s, "lock acquired inside a nested block")
					}
					if c.lock != "none" {
						c.irr(s, "lock acquired while already holding it")
					}
					c.newPhase(kind)
				case "Unlock", "RUnlock":
					want := map[string]string{"Unlock": "exclusive", "RUnlock": "shared"}[op]
					if c.lock != want {
						c.irr(s, "%s while holding %s", op, c.lock)
					}
					if c.defer_ {
						c.irr(s, "explicit unlock although the unlock is deferred")
					}
					if depth > 0 {
						if !lfEndsInReturn(list) {
							c.irr(s, "lock released inside a nested block that does not return")
						}
						restore = true
					}
					c.newPhase("none")
				default:
					c.irr(s, "unclassified mutex operation %s", op)
				}
				continue
			}
			c.expr(s.X)
		case *ast.DeferStmt:
			if op, ok := c.lockOp(s.Call); ok {
				want := map[string]string{"Unlock": "exclusive", "RUnlock": "shared"}[op]
				if want == "" || c.lock != want {
					c.irr(s, "deferred %s while holding %s", op, c.lock)
				}
				if depth > 0 {
					c.irr(s, "deferred unlock inside a nested block")
				}
				c.defer_ = true
				continue
			}
			if fl, ok := s.Call.Fun.(*ast.FuncLit); ok {
				c.block(fl.Body.List, depth+1)
				for _, a := range s.Call.Args {
					c.expr(a)
				}
			} else {
				c.call(s.Call)
			}
		case *ast.GoStmt:
			c.irr(s, "go statement")
			c.call(s.Call)
		case *ast.AssignStmt:
			for _, r := range s.Rhs {
				c.expr(r)
			}
			for _, l := range s.Lhs {
				if s.Tok == token.DEFINE {
					if _, isId := l.(*ast.Ident); isId {
						continue
					}
				}
				if s.Tok != token.ASSIGN && s.Tok != token.DEFINE {
					c.expr(l) // op-assign reads the target too
				}
				c.store(l)
			}
		case *ast.IncDecStmt:
			c.expr(s.X)
			c.store(s.X)
		case *ast.ReturnStmt:
			for _, r := range s.Results {
				c.expr(r)
			}
			if c.lock != "none" && !c.defer_ {
				c.irr(s, "return while holding the lock without a deferred unlock")
			}
		case *ast.IfStmt:
			if s.Init != nil {
				c.block([]ast.Stmt{s.Init}, depth+1)
			}
			c.expr(s.Cond)
			c.block(s.Body.List, depth+1)
			if s.Else != nil {
				c.block([]ast.Stmt{s.Else}, depth+1)
			}
		case *ast.BlockStmt:
			c.block(s.List, depth+1)
		case *ast.ForStmt:
			if s.Init != nil {
				c.block([]ast.Stmt{s.Init}, depth+1)
			}
			c.expr(s.Cond)
			if s.Post != nil {
				c.block([]ast.Stmt{s.Post}, depth+1)
			}
			c.loopBody(s.Body)
		case *ast.RangeStmt:
			c.expr(s.X)
			c.derefRead(s.X)
			for _, l := range []ast.Expr{s.Key, s.Value} {
				if l != nil && s.Tok == token.ASSIGN {
					c.store(l)
				}
			}
			c.loopBody(s.Body)
		case *ast.SwitchStmt:
			if s.Init != nil {
				c.block([]ast.Stmt{s.Init}, depth+1)
			}
			c.expr(s.Tag)
			for _, cc := range s.Body.List {
				cl := cc.(*ast.CaseClause)
				for _, e := range cl.List {
					c.expr(e)
				}
				c.block(cl.Body, depth+1)
			}
		case *ast.TypeSwitchStmt:
			if s.Init != nil {
				c.block([]ast.Stmt{s.Init}, depth+1)
			}
			c.block([]ast.Stmt{s.Assign}, depth+1)
			for _, cc := range s.Body.List {
				c.block(cc.(*ast.CaseClause).Body, depth+1)
			}
		case *ast.SelectStmt:
			for _, cc := range s.Body.List {
				cl := cc.(*ast.CommClause)
				if cl.Comm != nil {
					c.block([]ast.Stmt{cl.Comm}, depth+1)
				}
				c.block(cl.Body, depth+1)
			}
		case *ast.DeclStmt:
			if gd, ok := s.Decl.(*ast.GenDecl); ok {
				for _, sp := range gd.Specs {
					if vs, ok := sp.(*ast.ValueSpec); ok {
						for _, v := range vs.Values {
							c.expr(v)
						}
					}
				}
			}
		case *ast.SendStmt:
			c.expr(s.Chan)
			c.expr(s.Value)
		case *ast.LabeledStmt:
			c.block([]ast.Stmt{s.Stmt}, depth)
		case *ast.BranchStmt, *ast.EmptyStmt:
		default:
			c.irr(st, "unclassified statement %T", st)
			c.write("?")
		}
	}
	if restore {
		// the block released the lock and returned: the code after the enclosing statement
		// still runs with the lock state it had before this block
		c.lock = savedLock
		c.cur = saved
		if saved != nil && saved.Lock != savedLock {
			c.newPhase(savedLock)
		}
	}
}

// loopBody: the lock state at the end of a loop body must equal the state at its start
func (c *lfCtx) loopBody(b *ast.BlockStmt) {
	before := c.lock
	n := len(c.m.Phases)
	c.block(b.List, 1)
	if c.lock != before || len(c.m.Phases) != n {
		c.irr(b, "lock state changes inside a loop body")
	}
}

func (a *lfAnalyzer) analyze(f *lfFunc, ty *lfType, base *types.Var, name string) *lfMethod {
	m := &lfMethod{Typ: ty.Name, Name: name, Irregular: []string{}, ExtCalls: []string{}, fn: f}
	c := &lfCtx{a: a, f: f, m: m, ty: ty, base: base, alias: map[*types.Var][]string{}, taint: map[*types.Var]bool{}}
	if al := a.alias[f.obj]; al != nil {
		sig := f.obj.Type().(*types.Signature)
		for i, fields := range al {
			c.alias[sig.Params().At(i)] = fields
		}
	}
	c.computeTaint(f.decl.Body)
	c.newPhase("none")
	c.block(f.decl.Body.List, 0)
	if c.lock != "none" && !c.defer_ {
		c.irr(f.decl, "function ends while holding the lock without a deferred unlock")
	}
	// drop empty leading/trailing bookkeeping phases
	var ph []*lfPhase
	for _, p := range m.Phases {
		if p.Lock == "none" && len(p.Reads)+len(p.Writes)+len(p.Atomics)+len(p.SelfCalls) == 0 {
			continue
		}
		ph = append(ph, p)
	}
	m.Phases = ph
	return m
}

// ---------------------------------------------------------------------------------------------
// shared-state writes reachable from Database.SearchUniversal
// ---------------------------------------------------------------------------------------------

type lfWrite struct {
	Func   string `json:"func"`
	Target string `json:"target"`
}

type lfDB struct {
	w         *lfWorld
	shared    map[*types.TypeName]bool
	retShared map[*types.Func]bool // the function may return a reference into shared state
}

func (d *lfDB) addShared(t types.Type, depth int) {
	if t == nil || depth > 12 {
		return
	}
	switch u := t.(type) {
	case *types.Alias:
		d.addShared(types.Unalias(u), depth)
	case *types.Pointer:
		d.addShared(u.Elem(), depth+1)
	case *types.Slice:
		d.addShared(u.Elem(), depth+1)
	case *types.Array:
		d.addShared(u.Elem(), depth+1)
	case *types.Map:
		d.addShared(u.Key(), depth+1)
		d.addShared(u.Elem(), depth+1)
	case *types.Named:
		if !d.w.inModule(u.Obj()) || d.shared[u.Obj()] {
			return
		}
		if st, ok := u.Underlying().(*types.Struct); ok {
			d.shared[u.Obj()] = true
			for i := 0; i < st.NumFields(); i++ {
				d.addShared(st.Field(i).Type(), depth+1)
			}
		}
	}
}

// sharedType: values of this type are (or point into) structures owned by a Database
func (d *lfDB) sharedType(t types.Type) bool {
	if t == nil {
		return false
	}
	switch u := t.(type) {
	case *types.Alias:
		return d.sharedType(types.Unalias(u))
	case *types.Pointer:
		return d.sharedType(u.Elem())
	case *types.Slice:
		return d.sharedType(u.Elem())
	case *types.Array:
		return d.sharedType(u.Elem())
	case *types.Map:
		return d.sharedType(u.Elem())
	case *types.Named:
		return d.shared[u.Obj()]
	}
	return false
}

// dbFn: the analysis of one function body
type dbFn struct {
	d     *lfDB
	f     *lfFunc
	info  *types.Info
	taint map[*types.Var]bool
	// strong updates: `x = <fresh>` as a direct statement of a block kills the taint of x for the rest
	// of that block, provided every tainting assignment to x lexically precedes it
	fresh []dbFresh
	tpos  map[*types.Var]token.Pos // position of the last tainting assignment
}

type dbFresh struct {
	v        *types.Var
	from, to token.Pos
	at       token.Pos
}

func (a *dbFn) global(e ast.Expr) (*types.Var, bool) {
	switch v := ast.Unparen(e).(type) {
	case *ast.Ident:
		if o, ok := a.info.Uses[v].(*types.Var); ok && o.Pkg() != nil && o.Parent() == o.Pkg().Scope() {
			return o, true
		}
	case *ast.SelectorExpr:
		if o, ok := a.info.Uses[v.Sel].(*types.Var); ok && a.info.Selections[v] == nil && o.Pkg() != nil && o.Parent() == o.Pkg().Scope() {
			return o, true
		}
	}
	return nil, false
}

func (a *dbFn) tainted(v *types.Var, at token.Pos) bool {
	if !a.taint[v] {
		return false
	}
	for _, fr := range a.fresh {
		if fr.v == v && fr.from <= at && at < fr.to && a.tpos[v] < fr.at {
			return false
		}
	}
	return true
}

// sharedRooted: the expression designates memory reachable from shared state
func (a *dbFn) sharedRooted(e ast.Expr) (string, bool) {
	d, info := a.d, a.info
	e = ast.Unparen(e)
	if g, ok := a.global(e); ok {
		return "global " + g.Pkg().Name() + "." + g.Name(), true
	}
	switch v := e.(type) {
	case *ast.Ident:
		if o, ok := info.Uses[v].(*types.Var); ok {
			if a.tainted(o, v.Pos()) {
				return "data derived from shared state (" + v.Name + ")", true
			}
			if _, isPtr := o.Type().Underlying().(*types.Pointer); isPtr && d.sharedType(o.Type()) {
				return lfNamed(o.Type()).Obj().Name(), true
			}
			if sl, isSl := o.Type().Underlying().(*types.Slice); isSl && d.sharedType(o.Type()) {
				return "[]" + types.TypeString(sl.Elem(), func(p *types.Package) string { return p.Name() }), true
			}
			if mp, isMap := o.Type().Underlying().(*types.Map); isMap && d.sharedType(mp.Elem()) {
				return "map[…]" + types.TypeString(mp.Elem(), func(p *types.Package) string { return p.Name() }), true
			}
		}
		return "", false
	case *ast.SelectorExpr:
		if s := info.Selections[v]; s != nil && s.Kind() == types.FieldVal {
			if t := info.TypeOf(v.X); t != nil {
				if n := lfNamed(t); n != nil && d.shared[n.Obj()] {
					if _, isPtr := t.Underlying().(*types.Pointer); isPtr {
						return n.Obj().Name() + "." + v.Sel.Name, true
					}
				}
			}
			if r, ok := a.sharedRooted(v.X); ok {
				return r + "." + v.Sel.Name, true
			}
		}
		return "", false
	case *ast.IndexExpr:
		if r, ok := a.sharedRooted(v.X); ok {
			return r + "[]", true
		}
		return "", false
	case *ast.StarExpr:
		return a.sharedRooted(v.X)
	case *ast.SliceExpr:
		return a.sharedRooted(v.X)
	case *ast.UnaryExpr:
		if v.Op == token.AND {
			return a.sharedRooted(v.X)
		}
	case *ast.TypeAssertExpr:
		return a.sharedRooted(v.X)
	case *ast.CallExpr:
		if !lfRefLike(info.TypeOf(v)) {
			return "", false
		}
		var callee *types.Func
		var recv ast.Expr
		switch fun := ast.Unparen(v.Fun).(type) {
		case *ast.Ident:
			callee, _ = info.Uses[fun].(*types.Func)
		case *ast.SelectorExpr:
			if s := info.Selections[fun]; s != nil && s.Kind() == types.MethodVal {
				callee, _ = s.Obj().(*types.Func)
				recv = fun.X
			} else {
				callee, _ = info.Uses[fun.Sel].(*types.Func)
			}
		}
		if callee == nil {
			return "", false
		}
		callee = callee.Origin()
		if d.w.inModule(callee) {
			if d.retShared[callee] {
				return "result of " + lfFuncName(callee), true
			}
			// shared data of an innocuous type (a []string out of a Command, …) handed in may come back
			for _, arg := range v.Args {
				if t := info.TypeOf(arg); lfRefLike(t) && !d.sharedType(t) {
					if r, ok := a.sharedRooted(arg); ok {
						return r + " (through " + lfFuncName(callee) + ")", true
					}
				}
			}
			return "", false
		}
		if recv != nil {
			if r, ok := a.sharedRooted(recv); ok {
				return r + "." + callee.Name() + "()", true
			}
		}
	}
	return "", false
}

func newDbFn(d *lfDB, f *lfFunc, node ast.Node, skip ast.Node) *dbFn {
	a := &dbFn{d: d, f: f, info: f.pkg.info, taint: map[*types.Var]bool{}, tpos: map[*types.Var]token.Pos{}}
	info := a.info
	varOf := func(l ast.Expr) *types.Var {
		id, ok := l.(*ast.Ident)
		if !ok || id.Name == "_" {
			return nil
		}
		if v, ok := info.Defs[id].(*types.Var); ok {
			return v
		}
		v, _ := info.Uses[id].(*types.Var)
		return v
	}
	mark := func(l ast.Expr, r ast.Expr, pos token.Pos) bool {
		v := varOf(l)
		if v == nil || r == nil || lfFresh(r) || !lfRefLike(v.Type()) {
			return false
		}
		if _, ok := a.sharedRooted(r); ok {
			ch := !a.taint[v] || a.tpos[v] < pos
			a.taint[v] = true
			if a.tpos[v] < pos {
				a.tpos[v] = pos
			}
			return ch
		}
		return false
	}
	for changed := true; changed; {
		changed = false
		a.fresh = nil // while computing taint no strong updates are applied (conservative)
		ast.Inspect(node, func(n ast.Node) bool {
			if n == skip {
				return false
			}
			switch s := n.(type) {
			case *ast.AssignStmt:
				for i, l := range s.Lhs {
					var r ast.Expr
					if len(s.Rhs) == len(s.Lhs) {
						r = s.Rhs[i]
					} else if len(s.Rhs) == 1 {
						r = s.Rhs[0]
					}
					if mark(l, r, s.Pos()) {
						changed = true
					}
				}
			case *ast.RangeStmt:
				for _, l := range []ast.Expr{s.Key, s.Value} {
					if l != nil && mark(l, s.X, s.Pos()) {
						changed = true
					}
				}
			case *ast.ValueSpec:
				for i, id := range s.Names {
					if i < len(s.Values) && mark(id, s.Values[i], s.Pos()) {
						changed = true
					}
				}
			}
			return true
		})
	}
	// strong updates
	addBlock := func(list []ast.Stmt, end token.Pos) {
		for _, st := range list {
			as, ok := st.(*ast.AssignStmt)
			if !ok || len(as.Lhs) != 1 || len(as.Rhs) != 1 || !lfFresh(as.Rhs[0]) {
				continue
			}
			if v := varOf(as.Lhs[0]); v != nil && a.taint[v] {
				a.fresh = append(a.fresh, dbFresh{v, as.End(), end, as.Pos()})
			}
		}
	}
	ast.Inspect(node, func(n ast.Node) bool {
		switch b := n.(type) {
		case *ast.BlockStmt:
			addBlock(b.List, b.End())
		case *ast.CaseClause:
			addBlock(b.Body, b.End())
		}
		return true
	})
	return a
}

// writesIn: shared-state writes in a node of function f (and whether f may return shared references)
func (d *lfDB) writesIn(f *lfFunc, node ast.Node, skip ast.Node) (out []string, returnsShared bool) {
	a := newDbFn(d, f, node, skip)
	info := a.info
	storeTo := func(l ast.Expr) {
		l = ast.Unparen(l)
		if id, ok := l.(*ast.Ident); ok {
			if g, ok := a.global(id); ok {
				out = append(out, "global "+g.Pkg().Name()+"."+g.Name())
			}
			return // assignment to a local variable itself
		}
		if r, ok := a.sharedRooted(l); ok {
			out = append(out, r)
		}
	}
	ast.Inspect(node, func(n ast.Node) bool {
		if n == skip {
			return false
		}
		switch s := n.(type) {
		case *ast.AssignStmt:
			for _, l := range s.Lhs {
				if s.Tok == token.DEFINE {
					if _, isId := l.(*ast.Ident); isId {
						continue
					}
				}
				storeTo(l)
			}
		case *ast.IncDecStmt:
			storeTo(s.X)
		case *ast.RangeStmt:
			if s.Tok == token.ASSIGN {
				for _, l := range []ast.Expr{s.Key, s.Value} {
					if l != nil {
						storeTo(l)
					}
				}
			}
		case *ast.ReturnStmt:
			for _, r := range s.Results {
				if lfRefLike(info.TypeOf(r)) {
					if _, ok := a.sharedRooted(r); ok {
						returnsShared = true
					}
				}
			}
		case *ast.CallExpr:
			switch fun := ast.Unparen(s.Fun).(type) {
			case *ast.Ident:
				if b, ok := info.Uses[fun].(*types.Builtin); ok && len(s.Args) > 0 {
					switch b.Name() {
					case "delete", "clear", "copy":
						if r, ok := a.sharedRooted(s.Args[0]); ok {
							out = append(out, r+"[] ("+b.Name()+")")
						}
					}
				}
			case *ast.SelectorExpr:
				if sel := info.Selections[fun]; sel != nil && sel.Kind() == types.MethodVal {
					callee, _ := sel.Obj().(*types.Func)
					if callee != nil && !d.w.inModule(callee) {
						if sig := callee.Type().(*types.Signature); sig.Recv() != nil {
							if _, ptr := sig.Recv().Type().(*types.Pointer); ptr {
								if r, ok := a.sharedRooted(fun.X); ok {
									out = append(out, r+" (external method "+callee.Name()+")")
								}
							}
						}
					}
				} else if f2, ok := info.Uses[fun.Sel].(*types.Func); ok && !d.w.inModule(f2) && f2.Pkg() != nil {
					// external function: the sorting / in-place helpers mutate their argument
					pk := f2.Pkg().Path()
					if pk == "sort" || pk == "slices" || pk == "maps" || pk == "math/rand" || pk == "math/rand/v2" {
						for _, arg := range s.Args {
							if r, ok := a.sharedRooted(arg); ok && lfRefLike(info.TypeOf(arg)) {
								out = append(out, r+"[] (passed to "+pk+"."+f2.Name()+")")
							}
						}
					}
				}
			}
		case *ast.GoStmt:
			out = append(out, "go statement")
		}
		return true
	})
	return out, returnsShared
}

// ---------------------------------------------------------------------------------------------
// the extractor
// ---------------------------------------------------------------------------------------------

var lfTracked = []struct{ pkg, name string }{
	{"internal/cache", "LRUCache"}, {"internal/cache", "SearchCache"}, {"internal/cache", "Manager"},
	{"internal/metrics", "Counter"}, {"internal/metrics", "Gauge"}, {"internal/metrics", "Histogram"},
	{"internal/metrics", "Timer"}, {"internal/metrics", "Collector"}, {"internal/metrics", "PerformanceMonitor"},
}

// the operations C11 quantifies over (property text + quantifier)
var lfRoots = []string{
	"database.Database.SearchUniversal",
	"database.CachedDatabase.SearchWithOptionsAndCache",
	"database.MonitoredDatabase.SearchWithOptionsAndMonitoring",
	"database.CachedDatabase.InvalidateCache",
	"database.CachedDatabase.CleanupExpiredCache",
	"database.CachedDatabase.GetCacheStats",
	"database.MonitoredDatabase.GetPerformanceReport",
	"cache.LRUCache.Get", "cache.LRUCache.Put", "cache.LRUCache.Delete", "cache.LRUCache.Size", "cache.LRUCache.Stats",
	"cache.LRUCache.Keys", "cache.LRUCache.CleanupExpired", "cache.LRUCache.Clear", "cache.LRUCache.Capacity",
}

const lfGuardText = "db.uIndex == nil || db.uIndex.N != len(db.Commands)"

func leanPairList(ws []lfWrite) string {
	if len(ws) == 0 {
		return "[]"
	}
	q := make([]string, len(ws))
	for i, w := range ws {
		q[i] = "(" + leanStr(w.Func) + ", " + leanStr(w.Target) + ")"
	}
	return "[\n    " + strings.Join(q, ",\n    ") + "]"
}

func init() {
	register("lockfacts", func(x *X) {
		mod := lfModulePath(x.Repo)
		if !x.Assert("lockfacts:module", mod != "", "go.mod of %s has no module line", x.Repo) {
			return
		}
		w := &lfWorld{x: x, mod: mod, fset: x.Fset, pkgs: map[string]*lfPkg{}, other: map[string]*types.Package{}, funcs: map[*types.Func]*lfFunc{}}
		w.src = importer.ForCompiler(w.fset, "source", nil)
		for _, p := range []string{"internal/cache", "internal/metrics", "internal/database"} {
			if _, err := w.Import(mod + "/" + p); err != nil {
				x.Assert("lockfacts:load", false, "%s: %v", p, err)
				return
			}
		}
		// the packages whose facts are extracted must type-check; elsewhere only uses of the
		// third-party stand-ins may fail
		var bad []string
		for path, p := range w.pkgs {
			for _, e := range p.errs {
				strict := strings.HasSuffix(path, "/internal/cache") || strings.HasSuffix(path, "/internal/metrics")
				thirdParty := false
				for op, o := range w.other {
					if strings.Contains(strings.Split(op, "/")[0], ".") && strings.Contains(e, "undefined: "+o.Name()+".") {
						thirdParty = true
					}
				}
				if strict || !thirdParty {
					bad = append(bad, e)
				}
			}
		}
		sort.Strings(bad)
		x.Assert("lockfacts:typecheck", len(bad) == 0, "type errors: %s", strings.Join(bad, "; "))

		a := &lfAnalyzer{w: w, tracked: map[*types.TypeName]*lfType{}, pseudo: map[*types.Func]int{}, alias: map[*types.Func]map[int][]string{}}
		var tys []*lfType
		for _, t := range lfTracked {
			p := w.pkgs[mod+"/"+t.pkg]
			var tn *types.TypeName
			if p != nil && p.tpkg != nil {
				tn, _ = p.tpkg.Scope().Lookup(t.name).(*types.TypeName)
			}
			if !x.Assert("lockfacts:type:"+t.name, tn != nil, "type %s.%s not found", t.pkg, t.name) {
				continue
			}
			st, ok := tn.Type().Underlying().(*types.Struct)
			if !x.Assert("lockfacts:struct:"+t.name, ok, "%s is not a struct", t.name) {
				continue
			}
			lt := &lfType{Name: t.name, Pkg: p.tpkg.Name(), Fields: []string{}, named: tn.Type().(*types.Named)}
			for i := 0; i < st.NumFields(); i++ {
				f := st.Field(i)
				ts := lfTypeString(f.Type())
				if ts == "sync.RWMutex" || ts == "sync.Mutex" {
					if lt.Mutex != "" {
						x.Assert("lockfacts:mutex:"+t.name, false, "more than one mutex field")
					}
					lt.Mutex = f.Name()
				} else {
					lt.Fields = append(lt.Fields, f.Name())
				}
				if f.Embedded() {
					x.Assert("lockfacts:embedded:"+t.name, false, "embedded field %s is not supported by the extractor", f.Name())
				}
			}
			a.tracked[tn] = lt
			tys = append(tys, lt)
		}

		// pseudo-methods: package-level functions of the tracked packages that take a tracked pointer parameter
		var fns []*lfFunc
		for _, f := range w.funcs {
			fns = append(fns, f)
		}
		sort.Slice(fns, func(i, j int) bool { return fns[i].decl.Pos() < fns[j].decl.Pos() })
		for _, f := range fns {
			sig := f.obj.Type().(*types.Signature)
			if sig.Recv() != nil || !(strings.HasSuffix(f.pkg.path, "/internal/cache") || strings.HasSuffix(f.pkg.path, "/internal/metrics")) {
				continue
			}
			if strings.HasPrefix(f.obj.Name(), "New") {
				continue // constructors of other types that merely store the pointer
			}
			for i := 0; i < sig.Params().Len(); i++ {
				if _, isPtr := sig.Params().At(i).Type().(*types.Pointer); isPtr && a.tracked[typeNameOf(sig.Params().At(i).Type())] != nil {
					if _, dup := a.pseudo[f.obj]; dup {
						x.Assert("lockfacts:pseudo:"+f.obj.Name(), false, "two tracked parameters")
					}
					a.pseudo[f.obj] = i
				}
			}
		}
		// alias parameters of pseudo-methods: every call site must pass `recv.field` of the receiver it passes
		for _, f := range fns {
			info := f.pkg.info
			ast.Inspect(f.decl, func(n ast.Node) bool {
				call, ok := n.(*ast.CallExpr)
				if !ok {
					return true
				}
				var callee *types.Func
				switch fun := ast.Unparen(call.Fun).(type) {
				case *ast.Ident:
					callee, _ = info.Uses[fun].(*types.Func)
				case *ast.IndexExpr:
					if id, ok := fun.X.(*ast.Ident); ok {
						callee, _ = info.Uses[id].(*types.Func)
					}
				}
				if callee == nil {
					return true
				}
				callee = callee.Origin()
				pi, ok := a.pseudo[callee]
				if !ok || pi >= len(call.Args) {
					return true
				}
				recvID, _ := ast.Unparen(call.Args[pi]).(*ast.Ident)
				for i, arg := range call.Args {
					sel, ok := ast.Unparen(arg).(*ast.SelectorExpr)
					if !ok || recvID == nil {
						continue
					}
					id, ok := ast.Unparen(sel.X).(*ast.Ident)
					if !ok || info.Uses[id] != info.Uses[recvID] {
						continue
					}
					if s := info.Selections[sel]; s != nil && s.Kind() == types.FieldVal && lfRefLike(s.Obj().Type()) {
						if a.alias[callee] == nil {
							a.alias[callee] = map[int][]string{}
						}
						l := a.alias[callee][i]
						addUniq(&l, sel.Sel.Name)
						a.alias[callee][i] = l
					}
				}
				return true
			})
		}

		// methods
		var methods []*lfMethod
		byFunc := map[*types.Func]*lfMethod{}
		for _, f := range fns {
			sig := f.obj.Type().(*types.Signature)
			var m *lfMethod
			if sig.Recv() != nil {
				if lt := a.tracked[typeNameOf(sig.Recv().Type())]; lt != nil {
					if sig.Recv().Name() == "" || sig.Recv().Name() == "_" {
						m = &lfMethod{Typ: lt.Name, Name: f.obj.Name(), Irregular: []string{}, ExtCalls: []string{}, fn: f}
					} else {
						m = a.analyze(f, lt, sig.Recv(), f.obj.Name())
						if _, isPtr := sig.Recv().Type().(*types.Pointer); !isPtr {
							addUniq(&m.Irregular, "value receiver (the method works on a copy of the struct, including its mutex)")
						}
					}
				}
			} else if pi, ok := a.pseudo[f.obj]; ok {
				lt := a.tracked[typeNameOf(sig.Params().At(pi).Type())]
				m = a.analyze(f, lt, sig.Params().At(pi), f.obj.Name())
			}
			if m != nil {
				methods = append(methods, m)
				byFunc[f.obj] = m
			}
		}
		sort.SliceStable(methods, func(i, j int) bool {
			if methods[i].Typ != methods[j].Typ {
				return methods[i].Typ < methods[j].Typ
			}
			return methods[i].Name < methods[j].Name
		})

		// entry points: exported methods, and helpers referenced from anywhere but a self-call
		for _, m := range methods {
			m.Entry = ast.IsExported(m.Name)
			for _, o := range methods {
				for _, e := range o.ExtCalls {
					if e == m.Typ+"."+m.Name {
						m.Entry = true
					}
				}
			}
		}
		for _, f := range fns {
			if byFunc[f.obj] != nil {
				continue
			}
			outs, _ := w.refs(f.pkg, f.decl)
			for _, g := range outs {
				if m := byFunc[g]; m != nil {
					m.Entry = true
				}
			}
		}

		// scope: everything reachable from the operations C11 quantifies over
		byName := map[string]*lfFunc{}
		for _, f := range fns {
			byName[lfFuncName(f.obj)] = f
		}
		reach := map[*types.Func]bool{}
		var dyn []string
		var queue []*lfFunc
		for _, r := range lfRoots {
			f := byName[r]
			if !x.Assert("lockfacts:root:"+r, f != nil, "operation %s not found", r) {
				continue
			}
			if !reach[f.obj] {
				reach[f.obj] = true
				queue = append(queue, f)
			}
		}
		for len(queue) > 0 {
			f := queue[0]
			queue = queue[1:]
			out, d := w.refs(f.pkg, f.decl.Body)
			dyn = append(dyn, d...)
			for _, g := range out {
				if !reach[g] {
					reach[g] = true
					queue = append(queue, w.funcs[g])
				}
			}
		}
		x.Assert("lockfacts:no-dynamic-calls", len(dyn) == 0, "interface method calls reachable from the C11 operations: %v", dyn)
		var scope []string
		for _, m := range methods {
			m.InScope = reach[m.fn.obj]
			if m.InScope {
				scope = append(scope, m.Typ+"."+m.Name)
			}
		}

		// Database: shared-state writes reachable from SearchUniversal, split by the lazy-build guard
		d := &lfDB{w: w, shared: map[*types.TypeName]bool{}, retShared: map[*types.Func]bool{}}
		dbPkg := w.pkgs[mod+"/internal/database"]
		var dbT *types.TypeName
		if dbPkg != nil && dbPkg.tpkg != nil {
			dbT, _ = dbPkg.tpkg.Scope().Lookup("Database").(*types.TypeName)
		}
		su := byName["database.Database.SearchUniversal"]
		var guarded, unguarded []lfWrite
		var reachU, reachG []string
		guardOK := false
		var dbFields []string
		if x.Assert("lockfacts:Database", dbT != nil && su != nil, "Database / SearchUniversal not found") {
			d.addShared(dbT.Type(), 0)
			// which functions may hand out references into shared state (fixpoint over the whole module)
			for changed := true; changed; {
				changed = false
				for _, f := range fns {
					if d.retShared[f.obj] {
						continue
					}
					if _, rs := d.writesIn(f, f.decl.Body, nil); rs {
						d.retShared[f.obj] = true
						changed = true
					}
				}
			}
			if st, ok := dbT.Type().Underlying().(*types.Struct); ok {
				for i := 0; i < st.NumFields(); i++ {
					dbFields = append(dbFields, st.Field(i).Name())
				}
			}
			var guardIf *ast.IfStmt
			if len(su.decl.Body.List) > 0 {
				if is, ok := su.decl.Body.List[0].(*ast.IfStmt); ok && is.Init == nil && is.Else == nil && w.text(is.Cond) == lfGuardText {
					guardIf = is
				}
			}
			guardOK = x.Assert("lockfacts:lazy-build-guard", guardIf != nil,
				"SearchUniversal must start with `if %s { … }` (the only place where a search may write the database)", lfGuardText)
			// reachability with colours
			ru := map[*types.Func]bool{su.obj: true}
			q := []*lfFunc{su}
			var skipNode ast.Node
			if guardIf != nil {
				skipNode = guardIf.Body
			}
			for len(q) > 0 {
				f := q[0]
				q = q[1:]
				var body ast.Node = f.decl.Body
				var outs []*types.Func
				if f == su && skipNode != nil {
					// everything but the guarded block
					tmp := &ast.BlockStmt{List: append([]ast.Stmt{&ast.ExprStmt{X: guardIf.Cond}}, su.decl.Body.List[1:]...)}
					outs, _ = w.refs(f.pkg, tmp)
				} else {
					outs, _ = w.refs(f.pkg, body)
				}
				for _, g := range outs {
					if !ru[g] {
						ru[g] = true
						q = append(q, w.funcs[g])
					}
				}
			}
			rg := map[*types.Func]bool{}
			if guardIf != nil {
				outs, _ := w.refs(su.pkg, guardIf.Body)
				var q2 []*lfFunc
				for _, g := range outs {
					if !ru[g] && !rg[g] {
						rg[g] = true
						q2 = append(q2, w.funcs[g])
					}
				}
				for len(q2) > 0 {
					f := q2[0]
					q2 = q2[1:]
					outs, _ := w.refs(f.pkg, f.decl.Body)
					for _, g := range outs {
						if !ru[g] && !rg[g] {
							rg[g] = true
							q2 = append(q2, w.funcs[g])
						}
					}
				}
			}
			for _, f := range fns {
				if ru[f.obj] {
					reachU = append(reachU, lfFuncName(f.obj))
					var ws []string
					if f == su && skipNode != nil {
						ws, _ = d.writesIn(f, f.decl.Body, skipNode)
						gw, _ := d.writesIn(f, guardIf.Body, nil)
						for _, t := range gw {
							guarded = append(guarded, lfWrite{lfFuncName(f.obj), t})
						}
					} else {
						ws, _ = d.writesIn(f, f.decl.Body, nil)
					}
					for _, t := range ws {
						unguarded = append(unguarded, lfWrite{lfFuncName(f.obj), t})
					}
				} else if rg[f.obj] {
					reachG = append(reachG, lfFuncName(f.obj))
					gw, _ := d.writesIn(f, f.decl.Body, nil)
					for _, t := range gw {
						guarded = append(guarded, lfWrite{lfFuncName(f.obj), t})
					}
				}
			}
		}
		dedup := func(ws []lfWrite) []lfWrite {
			seen := map[lfWrite]bool{}
			var out []lfWrite
			for _, w := range ws {
				if !seen[w] {
					seen[w] = true
					out = append(out, w)
				}
			}
			return out
		}
		guarded, unguarded = dedup(guarded), dedup(unguarded)
		var sharedNames []string
		for tn := range d.shared {
			sharedNames = append(sharedNames, tn.Pkg().Name()+"."+tn.Name())
		}
		sort.Strings(sharedNames)
		sort.Strings(reachU)
		sort.Strings(reachG)

		// ---- Lean
		var sb strings.Builder
		sb.WriteString(`namespace Wtf.Gen.LockFacts

/-! Lock and access facts of the cache / metrics types and the shared-state write set of a search,
    re-derived from the Go sources by /verif/xlate/x_lockfacts.go.
    Field names: "f" = the field slot, "f[]" = what it refers to (map contents, list nodes),
    "<heap>" = objects reached through pointers read out of a field, "?" = unclassified (a write). -/

inductive LockKind where
  | none
  | shared
  | exclusive
deriving DecidableEq, Repr

/-- A maximal stretch of a method body during which the receiver's mutex is held in one mode. -/
structure Phase where
  lock : LockKind
  reads : List String
  writes : List String
  atomics : List String
  selfCalls : List String
deriving DecidableEq, Repr

structure MethodFact where
  typ : String
  name : String
  phases : List Phase
  /-- lock-protocol shapes and receiver uses the extractor could not classify (must be empty) -/
  irregular : List String
  /-- calls to methods of other tracked types, "Type.method" -/
  extCalls : List String
  /-- direct accesses (not through a method) to fields of OTHER tracked objects: (type, field) -/
  foreignReads : List (String × String)
  foreignWrites : List (String × String)
  /-- reachable from the operations C11 quantifies over -/
  inScope : Bool
  /-- callable from outside the type's own methods (exported, or referenced by other code) -/
  entry : Bool
deriving DecidableEq, Repr

structure TypeFact where
  name : String
  pkg : String
  mutex : Option String
  fields : List String
deriving DecidableEq, Repr

`)
		sb.WriteString("def types : List TypeFact := [\n")
		for i, t := range tys {
			mu := "none"
			if t.Mutex != "" {
				mu = "some " + leanStr(t.Mutex)
			}
			fmt.Fprintf(&sb, "  ⟨%s, %s, %s, %s⟩", leanStr(t.Name), leanStr(t.Pkg), mu, leanStrList(t.Fields))
			if i < len(tys)-1 {
				sb.WriteString(",")
			}
			sb.WriteString("\n")
		}
		sb.WriteString("]\n\n")
		lk := map[string]string{"none": ".none", "shared": ".shared", "exclusive": ".exclusive"}
		sb.WriteString("def methods : List MethodFact := [\n")
		for i, m := range methods {
			var fr, fw []lfWrite
			fmt.Fprintf(&sb, "  { typ := %s, name := %s, inScope := %v, entry := %v,\n    phases := [", leanStr(m.Typ), leanStr(m.Name), m.InScope, m.Entry)
			for j, p := range m.Phases {
				if j > 0 {
					sb.WriteString(",\n               ")
				}
				own := func(l []string) []string {
					o := []string{}
					for _, n := range l {
						if !strings.Contains(n, ".") {
							o = append(o, n)
						}
					}
					return o
				}
				for _, n := range p.Reads {
					if i := strings.Index(n, "."); i > 0 {
						fr = append(fr, lfWrite{n[:i], n[i+1:]})
					}
				}
				for _, n := range p.Writes {
					if i := strings.Index(n, "."); i > 0 {
						fw = append(fw, lfWrite{n[:i], n[i+1:]})
					}
				}
				fmt.Fprintf(&sb, "⟨%s, %s, %s, %s, %s⟩", lk[p.Lock], leanStrList(own(p.Reads)), leanStrList(own(p.Writes)), leanStrList(p.Atomics), leanStrList(p.SelfCalls))
			}
			pairs := func(ws []lfWrite) string {
				q := make([]string, len(ws))
				for i, w := range ws {
					q[i] = "(" + leanStr(w.Func) + ", " + leanStr(w.Target) + ")"
				}
				return "[" + strings.Join(q, ", ") + "]"
			}
			fmt.Fprintf(&sb, "],\n    irregular := %s,\n    extCalls := %s,\n    foreignReads := %s, foreignWrites := %s }", leanStrList(m.Irregular), leanStrList(m.ExtCalls), pairs(fr), pairs(fw))
			if i < len(methods)-1 {
				sb.WriteString(",")
			}
			sb.WriteString("\n")
		}
		sb.WriteString("]\n\n")
		fmt.Fprintf(&sb, "/-- the operations C11 quantifies over (roots of the scope) -/\ndef scopeRoots : List String := %s\n\n", leanStrList(lfRoots))
		fmt.Fprintf(&sb, "/-- `SearchUniversal` starts with `if <dbGuard> { rebuild }`; `dbGuardFound` = that shape was recognised -/\ndef dbGuard : String := %s\ndef dbGuardFound : Bool := %v\n\n", leanStr(lfGuardText), guardOK)
		fmt.Fprintf(&sb, "def dbFields : List String := %s\n\n", leanStrList(dbFields))
		fmt.Fprintf(&sb, "/-- struct types reachable from `Database` through its fields: memory shared by all searches -/\ndef dbSharedTypes : List String := %s\n\n", leanStrList(sharedNames))
		fmt.Fprintf(&sb, "/-- functions reachable from `SearchUniversal` outside the guarded block -/\ndef dbReachable : List String := %s\n\n", leanStrList(reachU))
		fmt.Fprintf(&sb, "/-- functions reachable only through the guarded block -/\ndef dbReachableGuardedOnly : List String := %s\n\n", leanStrList(reachG))
		fmt.Fprintf(&sb, "/-- (function, target): stores to shared state (memory reachable from a `Database`, package-level\n    variables) on the unguarded part of a search -/\ndef dbUnguardedWrites : List (String × String) := %s\n\n", leanPairList(unguarded))
		fmt.Fprintf(&sb, "/-- the same for code that runs only under the guard (the lazy rebuild) -/\ndef dbGuardedWrites : List (String × String) := %s\n\n", leanPairList(guarded))
		sb.WriteString("end Wtf.Gen.LockFacts\n")
		x.WriteLean("LockFacts", sb.String())

		x.Assert("lockfacts:methods", len(methods) >= 40, "only %d methods extracted", len(methods))
		x.Assert("lockfacts:scope", len(scope) >= 20, "only %d methods in scope", len(scope))
		x.Fact("lockfacts.methods", methods)
		x.Fact("lockfacts.types", tys)
		x.Fact("lockfacts.scope", scope)
		x.Fact("lockfacts.db", map[string]interface{}{"guard": lfGuardText, "guardFound": guardOK, "unguardedWrites": unguarded,
			"guardedWrites": guarded, "reachable": reachU, "reachableGuardedOnly": reachG, "sharedTypes": sharedNames})
	})
}
