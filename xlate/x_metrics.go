package main

import (
	"fmt"
	"go/ast"
	"go/constant"
	"go/token"
	"strconv"
	"strings"
)

// Metrics (C18): code-shape facts and literal tables of internal/metrics.
//
//	keyLoopSortsTags   true iff Collector.metricKey concatenates the tags by ranging over a slice that
//	                   (a) is filled only with the keys of the tag map, (b) is passed through
//	                   sort.Strings / slices.Sort at top level after it is filled and before the
//	                   concatenating loop, and (c) the concatenating loop does NOT range over the map.
//	                   false when the concatenating loop ranges over the map itself.
//	tagSep, kvSep      the two separator literals of `key += tagSep + k + kvSep + v`
//	counterOpsAtomic   true iff Counter.Inc/Add are one sync/atomic AddInt64 on c.value each and
//	                   Counter.Value is one atomic LoadInt64 (premise of the interleaving theorem)
//	histObserveLocked  true iff Histogram.Observe starts with h.mu.Lock(); defer h.mu.Unlock()
//	defaultBuckets     the bucket literal of NewHistogram as exact rationals
func init() {
	register("metrics", func(x *X) {
		const pkg = "internal/metrics"
		var sb strings.Builder
		sb.WriteString("import WtfModel.Basic.Q\nnamespace Wtf.Gen.Metrics\n\n")

		// ---- metricKey ---------------------------------------------------------------------
		sorts, tagSep, kvSep := false, ":", "="
		fd := x.Func(pkg, "metricKey")
		if x.Assert("metrics:metricKey", fd != nil && fd.Body != nil, "method metricKey not found in %s", pkg) {
			ks := analyseMetricKey(fd)
			x.Assert("metrics:metricKey-params", ks.paramsOK, "expected metricKey(name string, tags map[string]string) string; %s", ks.why)
			x.Assert("metrics:metricKey-empty-guard", ks.emptyGuard, "expected first statement `if len(tags) == 0 { return name }`")
			x.Assert("metrics:metricKey-concat", ks.concatOK, "expected exactly one loop whose body is `key += <lit> + k + <lit> + <tags[k] | v>` and a final `return key` with `key := name` before the loop; %s", ks.why)
			x.Assert("metrics:metricKey-loop-source", ks.sourceOK, "the concatenating loop must range either over the tag map itself or over a slice of its keys; %s", ks.why)
			ascii := true
			for _, b := range []byte(ks.tagSep + ks.kvSep) {
				if b >= 0x80 {
					ascii = false
				}
			}
			x.Assert("metrics:metricKey-separators-ascii", ascii, "separator literals must be ASCII (the model converts them bytewise)")
			if ks.concatOK && ascii {
				tagSep, kvSep = ks.tagSep, ks.kvSep
			}
			sorts = ks.paramsOK && ks.concatOK && ks.sourceOK && ks.sorted && ascii
			x.Fact("metrics.metricKey", map[string]interface{}{"rangesOverMap": ks.rangesOverMap, "sortedKeySlice": ks.sorted, "why": ks.why})
		}
		fmt.Fprintf(&sb, "/-- `Collector.metricKey` walks the tag names in sorted order (a key slice passed through\n    sort.Strings before the concatenating loop) and not in map-iteration order -/\ndef keyLoopSortsTags : Bool := %v\n\n", sorts)
		fmt.Fprintf(&sb, "/-- separators of `key += tagSep + k + kvSep + v` -/\ndef tagSep : String := %s\ndef kvSep : String := %s\n\n", leanStr(tagSep), leanStr(kvSep))
		x.Fact("metrics.keyLoopSortsTags", sorts)

		// ---- getOrCreate -------------------------------------------------------------------
		if g := x.Func(pkg, "getOrCreate"); x.Assert("metrics:getOrCreate", g != nil && g.Body != nil, "function getOrCreate not found") {
			ok, why := analyseGetOrCreate(g)
			x.Assert("metrics:getOrCreate-shape", ok, "expected key := mc.metricKey(name, tags); lookups and the single store all on storage[key]; the store under mc.mu.Lock() and preceded there by a second lookup; %s", why)
		}
		for _, m := range [][2]string{{"Counter", "counters"}, {"Gauge", "gauges"}, {"Histogram", "histograms"}, {"Timer", "timers"}} {
			ok := false
			if f := collectorMethod(x, pkg, m[0]); f != nil && f.Body != nil && len(f.Body.List) == 1 {
				if rs, isRet := f.Body.List[0].(*ast.ReturnStmt); isRet && len(rs.Results) == 1 {
					if c, isCall := rs.Results[0].(*ast.CallExpr); isCall && len(c.Args) == 5 && exprStr(c.Fun) == "getOrCreate" &&
						exprStr(c.Args[1]) == "mc."+m[1] && exprStr(c.Args[2]) == "name" && exprStr(c.Args[3]) == "tags" {
						ok = true
					}
				}
			}
			x.Assert("metrics:Collector."+m[0], ok, "expected `return getOrCreate(mc, mc.%s, name, tags, New%s)`", m[1], m[0])
		}

		// ---- Counter atomics ---------------------------------------------------------------
		atomicOK := true
		for _, m := range []struct{ name, call string }{
			{"Inc", "atomic.AddInt64(&c.value, 1)"}, {"Add", "atomic.AddInt64(&c.value, value)"},
			{"Value", "atomic.LoadInt64(&c.value)"}, {"Reset", "atomic.StoreInt64(&c.value, 0)"}} {
			f := methodOf(x, pkg, "Counter", m.name)
			got := ""
			if f != nil && f.Body != nil && len(f.Body.List) == 1 {
				switch st := f.Body.List[0].(type) {
				case *ast.ExprStmt:
					got = exprStr(st.X)
				case *ast.ReturnStmt:
					if len(st.Results) == 1 {
						got = exprStr(st.Results[0])
					}
				}
			}
			if got != m.call {
				atomicOK = false
			}
			x.Fact("metrics.Counter."+m.name, got)
		}
		fmt.Fprintf(&sb, "/-- Counter.Inc / Add / Value / Reset are each exactly one sync/atomic operation on c.value -/\ndef counterOpsAtomic : Bool := %v\n\n", atomicOK)

		// ---- Histogram.Observe lock --------------------------------------------------------
		locked := false
		if f := methodOf(x, pkg, "Histogram", "Observe"); f != nil && f.Body != nil && len(f.Body.List) >= 2 {
			a, aok := f.Body.List[0].(*ast.ExprStmt)
			d, dok := f.Body.List[1].(*ast.DeferStmt)
			if aok && dok && exprStr(a.X) == "h.mu.Lock()" && exprStr(d.Call) == "h.mu.Unlock()" {
				locked = true
			}
		}
		fmt.Fprintf(&sb, "/-- Histogram.Observe runs entirely under the histogram's exclusive lock -/\ndef histObserveLocked : Bool := %v\n\n", locked)

		// ---- default buckets ---------------------------------------------------------------
		var qs []string
		var raw []string
		if f := x.Func(pkg, "NewHistogram"); x.Assert("metrics:NewHistogram", f != nil && f.Body != nil, "function NewHistogram not found") {
			var lit *ast.CompositeLit
			varName := ""
			for _, st := range f.Body.List {
				if as, ok := st.(*ast.AssignStmt); ok && len(as.Lhs) == 1 && len(as.Rhs) == 1 {
					if cl, ok := as.Rhs[0].(*ast.CompositeLit); ok && exprStr(cl.Type) == "[]float64" {
						lit, varName = cl, exprStr(as.Lhs[0])
					}
				}
			}
			passes := false
			if lit != nil {
				ast.Inspect(f.Body, func(n ast.Node) bool {
					if c, ok := n.(*ast.CallExpr); ok && exprStr(c.Fun) == "NewHistogramWithBuckets" && len(c.Args) == 3 && exprStr(c.Args[1]) == varName {
						passes = true
					}
					return true
				})
			}
			good := lit != nil && passes
			if lit != nil {
				for _, e := range lit.Elts {
					v, ok := constOf(e)
					if !ok {
						good = false
						break
					}
					q, ok := leanQ(v)
					if !ok {
						good = false
						break
					}
					qs = append(qs, q)
					raw = append(raw, v.ExactString())
				}
			}
			if !x.Assert("metrics:NewHistogram-buckets", good, "expected `<v> := []float64{<numeric literals>}` passed to NewHistogramWithBuckets(name, <v>, tags)") {
				qs, raw = nil, nil
			}
		}
		fmt.Fprintf(&sb, "/-- bucket upper bounds of NewHistogram, as exact rationals -/\ndef defaultBuckets : List Wtf.Q := [%s]\n\n", strings.Join(qs, ", "))
		x.Fact("metrics.defaultBuckets", raw)

		// ---- Histogram: counts has len(buckets)+1 cells --------------------------------------
		if f := x.Func(pkg, "NewHistogramWithBuckets"); x.Assert("metrics:NewHistogramWithBuckets", f != nil && f.Body != nil, "function not found") {
			found := false
			ast.Inspect(f.Body, func(n ast.Node) bool {
				if kv, ok := n.(*ast.KeyValueExpr); ok && exprStr(kv.Key) == "counts" && exprStr(kv.Value) == "make([]int64, len(buckets)+1)" {
					found = true
				}
				return true
			})
			x.Assert("metrics:Histogram-overflow-cell", found, "expected `counts: make([]int64, len(buckets)+1)`")
		}

		// ---- monitor: which counters the record functions touch ----------------------------
		for _, rf := range []struct {
			fn   string
			want []string
		}{
			{"RecordSearchOperation", []string{"searches_total", "cache_hits_total", "cache_misses_total"}},
			{"RecordDatabaseOperation", []string{"database_operations_total"}},
		} {
			f := methodOf(x, pkg, "PerformanceMonitor", rf.fn)
			names := map[string]bool{}
			guard := false
			if f != nil && f.Body != nil {
				if len(f.Body.List) > 0 {
					if is, ok := f.Body.List[0].(*ast.IfStmt); ok && exprStr(is.Cond) == "!pm.enabled" && len(is.Body.List) == 1 {
						if _, ok := is.Body.List[0].(*ast.ReturnStmt); ok {
							guard = true
						}
					}
				}
				ast.Inspect(f.Body, func(n ast.Node) bool {
					if c, ok := n.(*ast.CallExpr); ok && exprStr(c.Fun) == "pm.collector.Counter" && len(c.Args) == 2 {
						if bl, ok := c.Args[0].(*ast.BasicLit); ok && bl.Kind == token.STRING {
							s, _ := strconv.Unquote(bl.Value)
							names[s] = true
						}
					}
					return true
				})
			}
			miss := []string{}
			for _, w := range rf.want {
				if !names[w] {
					miss = append(miss, w)
				}
			}
			x.Assert("metrics:"+rf.fn, f != nil && guard && len(miss) == 0, "expected `if !pm.enabled { return }` first and pm.collector.Counter(...) calls for %v (missing %v)", rf.want, miss)
		}

		// ---- search_monitored.go: one record call per monitored operation -----------------------
		for _, w := range [][2]string{{"SearchWithMonitoring", "mdb.monitor.RecordSearchOperation"}, {"SearchWithOptionsAndMonitoring", "mdb.monitor.RecordSearchOperation"},
			{"LoadDatabaseWithMonitoring", "mdb.monitor.RecordDatabaseOperation"}} {
			f := methodOf(x, "internal/database", "MonitoredDatabase", w[0])
			n, top := 0, 0
			if f != nil && f.Body != nil {
				ast.Inspect(f.Body, func(nd ast.Node) bool {
					if c, ok := nd.(*ast.CallExpr); ok && exprStr(c.Fun) == w[1] {
						n++
					}
					return true
				})
				for _, st := range f.Body.List {
					if es, ok := st.(*ast.ExprStmt); ok {
						if c, ok := es.X.(*ast.CallExpr); ok && exprStr(c.Fun) == w[1] {
							top++
						}
					}
				}
			}
			x.Assert("metrics:MonitoredDatabase."+w[0], n == 1 && top == 1, "expected exactly one unconditional call of %s (found %d, %d at top level)", w[1], n, top)
		}

		sb.WriteString("end Wtf.Gen.Metrics\n")
		x.WriteLean("Metrics", sb.String())
	})
}

// exprStr renders an expression compactly (identifiers, selectors, calls, literals, unary/binary, index).
func exprStr(e ast.Expr) string {
	switch t := e.(type) {
	case nil:
		return ""
	case *ast.Ident:
		return t.Name
	case *ast.BasicLit:
		return t.Value
	case *ast.SelectorExpr:
		return exprStr(t.X) + "." + t.Sel.Name
	case *ast.StarExpr:
		return "*" + exprStr(t.X)
	case *ast.UnaryExpr:
		return t.Op.String() + exprStr(t.X)
	case *ast.BinaryExpr:
		return exprStr(t.X) + t.Op.String() + exprStr(t.Y)
	case *ast.ParenExpr:
		return "(" + exprStr(t.X) + ")"
	case *ast.IndexExpr:
		return exprStr(t.X) + "[" + exprStr(t.Index) + "]"
	case *ast.ArrayType:
		return "[" + exprStr(t.Len) + "]" + exprStr(t.Elt)
	case *ast.MapType:
		return "map[" + exprStr(t.Key) + "]" + exprStr(t.Value)
	case *ast.CallExpr:
		as := make([]string, len(t.Args))
		for i, a := range t.Args {
			as[i] = exprStr(a)
		}
		return exprStr(t.Fun) + "(" + strings.Join(as, ", ") + ")"
	default:
		return fmt.Sprintf("<%T>", e)
	}
}

func constOf(e ast.Expr) (constant.Value, bool) {
	switch t := e.(type) {
	case *ast.BasicLit:
		if t.Kind == token.INT || t.Kind == token.FLOAT {
			v := constant.MakeFromLiteral(t.Value, t.Kind, 0)
			return v, v.Kind() != constant.Unknown
		}
	case *ast.UnaryExpr:
		if t.Op == token.SUB || t.Op == token.ADD {
			if v, ok := constOf(t.X); ok {
				return constant.UnaryOp(t.Op, v, 0), true
			}
		}
	case *ast.ParenExpr:
		return constOf(t.X)
	}
	return nil, false
}

func recvTypeName(fd *ast.FuncDecl) string {
	if fd.Recv == nil || len(fd.Recv.List) != 1 {
		return ""
	}
	t := fd.Recv.List[0].Type
	if s, ok := t.(*ast.StarExpr); ok {
		t = s.X
	}
	if id, ok := t.(*ast.Ident); ok {
		return id.Name
	}
	return ""
}

func methodOf(x *X, rel, recv, name string) *ast.FuncDecl {
	for _, f := range x.Pkg(rel) {
		for _, d := range f.Decls {
			if fd, ok := d.(*ast.FuncDecl); ok && fd.Name.Name == name && recvTypeName(fd) == recv {
				return fd
			}
		}
	}
	return nil
}

func collectorMethod(x *X, rel, name string) *ast.FuncDecl {
	return methodOf(x, rel, "Collector", name)
}

type keyShape struct {
	paramsOK, emptyGuard, concatOK, sourceOK bool
	rangesOverMap, sorted                    bool
	tagSep, kvSep                            string
	why                                      string
}

// analyseMetricKey recognises the two shapes the model distinguishes (see the header comment).
func analyseMetricKey(fd *ast.FuncDecl) (ks keyShape) {
	note := func(f string, a ...interface{}) {
		if ks.why != "" {
			ks.why += "; "
		}
		ks.why += fmt.Sprintf(f, a...)
	}
	// parameters
	nameP, tagsP := "", ""
	if fd.Type.Params != nil {
		var ps [][2]string
		for _, f := range fd.Type.Params.List {
			for _, n := range f.Names {
				ps = append(ps, [2]string{n.Name, exprStr(f.Type)})
			}
		}
		if len(ps) == 2 && ps[0][1] == "string" && ps[1][1] == "map[string]string" {
			nameP, tagsP = ps[0][0], ps[1][0]
			ks.paramsOK = true
		} else {
			note("parameters are %v", ps)
		}
	}
	if !ks.paramsOK {
		return
	}
	stmts := fd.Body.List
	// `if len(tags) == 0 { return name }`
	if len(stmts) > 0 {
		if is, ok := stmts[0].(*ast.IfStmt); ok && is.Init == nil && is.Else == nil && exprStr(is.Cond) == "len("+tagsP+")==0" && len(is.Body.List) == 1 {
			if rs, ok := is.Body.List[0].(*ast.ReturnStmt); ok && len(rs.Results) == 1 && exprStr(rs.Results[0]) == nameP {
				ks.emptyGuard = true
			}
		}
	}
	// find every range loop at top level and classify
	type loopInfo struct {
		idx    int
		rs     *ast.RangeStmt
		concat bool
	}
	var loops []loopInfo
	keyVar := ""
	keyInitIdx := -1
	for i, st := range stmts {
		switch t := st.(type) {
		case *ast.AssignStmt:
			if t.Tok == token.DEFINE && len(t.Lhs) == 1 && len(t.Rhs) == 1 && exprStr(t.Rhs[0]) == nameP {
				keyVar, keyInitIdx = exprStr(t.Lhs[0]), i
			}
		case *ast.RangeStmt:
			loops = append(loops, loopInfo{idx: i, rs: t})
		case *ast.ForStmt:
			note("unexpected 3-clause for loop")
			return
		}
	}
	if keyVar == "" {
		note("no `key := %s`", nameP)
		return
	}
	// the concatenating loop: body is the single statement `key += A + k + B + V`
	var cl *loopInfo
	for i := range loops {
		l := &loops[i]
		if len(l.rs.Body.List) != 1 {
			continue
		}
		as, ok := l.rs.Body.List[0].(*ast.AssignStmt)
		if !ok || len(as.Lhs) != 1 || len(as.Rhs) != 1 || exprStr(as.Lhs[0]) != keyVar {
			continue
		}
		rhs := as.Rhs[0]
		if as.Tok == token.ASSIGN { // key = key + ...
			parts := flattenAdd(rhs)
			if len(parts) == 5 && exprStr(parts[0]) == keyVar {
				l.concat = true
			}
		} else if as.Tok == token.ADD_ASSIGN {
			if len(flattenAdd(rhs)) == 4 {
				l.concat = true
			}
		}
		if l.concat {
			if cl != nil {
				note("more than one concatenating loop")
				return
			}
			cl = l
		}
	}
	if cl == nil {
		note("no concatenating loop found")
		return
	}
	if cl.idx < keyInitIdx {
		note("key initialised after the loop")
		return
	}
	// final statement returns key
	if rs, ok := stmts[len(stmts)-1].(*ast.ReturnStmt); !ok || len(rs.Results) != 1 || exprStr(rs.Results[0]) != keyVar {
		note("last statement is not `return %s`", keyVar)
		return
	}
	as := cl.rs.Body.List[0].(*ast.AssignStmt)
	parts := flattenAdd(as.Rhs[0])
	if as.Tok == token.ASSIGN {
		parts = parts[1:]
	}
	l1, ok1 := parts[0].(*ast.BasicLit)
	l2, ok2 := parts[2].(*ast.BasicLit)
	if !ok1 || !ok2 || l1.Kind != token.STRING || l2.Kind != token.STRING {
		note("separators are not string literals")
		return
	}
	s1, e1 := strconv.Unquote(l1.Value)
	s2, e2 := strconv.Unquote(l2.Value)
	if e1 != nil || e2 != nil {
		note("cannot unquote separators")
		return
	}
	src := exprStr(cl.rs.X)
	kName, vName := exprStr(cl.rs.Key), exprStr(cl.rs.Value)
	switch {
	case src == tagsP:
		// for k, v := range tags { key += ":" + k + "=" + v }   (or tags[k])
		if exprStr(parts[1]) != kName || kName == "" || kName == "_" {
			note("loop over the map does not concatenate its key variable")
			return
		}
		if v := exprStr(parts[3]); !(v == vName && vName != "" && vName != "_") && v != tagsP+"["+kName+"]" {
			note("value operand is %s", v)
			return
		}
		ks.concatOK, ks.sourceOK, ks.rangesOverMap = true, true, true
		ks.tagSep, ks.kvSep = s1, s2
		note("the concatenating loop ranges over the tag map: order of concatenation = map iteration order")
		return
	default:
		// for _, k := range names { key += ":" + k + "=" + tags[k] }
		if kName != "_" && kName != "" || vName == "" || vName == "_" {
			note("loop over %s must bind only the element", src)
			return
		}
		if exprStr(parts[1]) != vName || exprStr(parts[3]) != tagsP+"["+vName+"]" {
			note("loop over %s does not concatenate `elem` and `%s[elem]`", src, tagsP)
			return
		}
		ks.concatOK = true
		ks.tagSep, ks.kvSep = s1, s2
	}
	if _, isIdent := cl.rs.X.(*ast.Ident); !isIdent {
		note("loop source %s is not a plain variable", src)
		return
	}
	// `src` must be: declared as an empty []string, filled by `for k := range tags { src = append(src, k) }`,
	// sorted by sort.Strings(src) / slices.Sort(src) after that loop and before the concatenating loop,
	// and touched by nothing else.
	declIdx, fillIdx, sortIdx := -1, -1, -1
	for i, st := range stmts {
		if i >= cl.idx {
			break
		}
		uses := mentions(st, src)
		switch t := st.(type) {
		case *ast.AssignStmt:
			if len(t.Lhs) == 1 && exprStr(t.Lhs[0]) == src && t.Tok == token.DEFINE && len(t.Rhs) == 1 {
				r := exprStr(t.Rhs[0])
				if r == "make([]string, 0, len("+tagsP+"))" || r == "make([]string, 0)" || r == "[]string{}" {
					declIdx = i
					continue
				}
			}
		case *ast.DeclStmt:
			if gd, ok := t.Decl.(*ast.GenDecl); ok && gd.Tok == token.VAR && len(gd.Specs) == 1 {
				if vs, ok := gd.Specs[0].(*ast.ValueSpec); ok && len(vs.Names) == 1 && vs.Names[0].Name == src && len(vs.Values) == 0 && exprStr(vs.Type) == "[]string" {
					declIdx = i
					continue
				}
			}
		case *ast.RangeStmt:
			if exprStr(t.X) == tagsP && t.Value == nil && t.Key != nil && len(t.Body.List) == 1 {
				k := exprStr(t.Key)
				if a, ok := t.Body.List[0].(*ast.AssignStmt); ok && a.Tok == token.ASSIGN && len(a.Lhs) == 1 && len(a.Rhs) == 1 &&
					exprStr(a.Lhs[0]) == src && exprStr(a.Rhs[0]) == "append("+src+", "+k+")" {
					if fillIdx >= 0 {
						note("%s filled twice", src)
						return
					}
					fillIdx = i
					continue
				}
			}
		case *ast.ExprStmt:
			if c := exprStr(t.X); c == "sort.Strings("+src+")" || c == "slices.Sort("+src+")" {
				sortIdx = i
				continue
			}
		}
		if uses {
			note("statement %d touches %s in an unrecognised way", i, src)
			return
		}
	}
	if declIdx < 0 || fillIdx < 0 || declIdx > fillIdx {
		note("%s is not an empty []string filled with the keys of %s", src, tagsP)
		return
	}
	ks.sourceOK = true
	if sortIdx > fillIdx && sortIdx < cl.idx {
		ks.sorted = true
	} else {
		note("no sort.Strings(%s) between the collecting loop and the concatenating loop", src)
	}
	return
}

func flattenAdd(e ast.Expr) []ast.Expr {
	if b, ok := e.(*ast.BinaryExpr); ok && b.Op == token.ADD {
		return append(flattenAdd(b.X), flattenAdd(b.Y)...)
	}
	if p, ok := e.(*ast.ParenExpr); ok {
		return flattenAdd(p.X)
	}
	return []ast.Expr{e}
}

func mentions(n ast.Node, name string) bool {
	found := false
	ast.Inspect(n, func(m ast.Node) bool {
		if id, ok := m.(*ast.Ident); ok && id.Name == name {
			found = true
		}
		return !found
	})
	return found
}

// analyseGetOrCreate: `key := mc.metricKey(name, tags)`, every index expression on `storage` uses `key`,
// exactly one store `storage[key] = item`, and it happens after mc.mu.Lock().
func analyseGetOrCreate(fd *ast.FuncDecl) (bool, string) {
	keyVar := ""
	for _, st := range fd.Body.List {
		if as, ok := st.(*ast.AssignStmt); ok && as.Tok == token.DEFINE && len(as.Lhs) == 1 && len(as.Rhs) == 1 &&
			exprStr(as.Rhs[0]) == "mc.metricKey(name, tags)" {
			keyVar = exprStr(as.Lhs[0])
		}
	}
	if keyVar == "" {
		return false, "no `key := mc.metricKey(name, tags)`"
	}
	okIdx, stores, lockPos, storePos, recheckPos := true, 0, token.NoPos, token.NoPos, token.NoPos
	ast.Inspect(fd.Body, func(n ast.Node) bool {
		switch t := n.(type) {
		case *ast.IfStmt:
			// `if item, exists := storage[key]; exists { ...; return item }`
			if as, ok := t.Init.(*ast.AssignStmt); ok && as.Tok == token.DEFINE && len(as.Lhs) == 2 && len(as.Rhs) == 1 &&
				exprStr(as.Rhs[0]) == "storage["+keyVar+"]" && exprStr(t.Cond) == exprStr(as.Lhs[1]) && len(t.Body.List) > 0 {
				if rs, ok := t.Body.List[len(t.Body.List)-1].(*ast.ReturnStmt); ok && len(rs.Results) == 1 && exprStr(rs.Results[0]) == exprStr(as.Lhs[0]) {
					recheckPos = t.Pos() // the last such lookup in source order
				}
			}
		case *ast.IndexExpr:
			if exprStr(t.X) == "storage" && exprStr(t.Index) != keyVar {
				okIdx = false
			}
		case *ast.AssignStmt:
			if t.Tok == token.ASSIGN && len(t.Lhs) == 1 {
				if ix, ok := t.Lhs[0].(*ast.IndexExpr); ok && exprStr(ix.X) == "storage" {
					stores++
					storePos = t.Pos()
				}
			}
		case *ast.ExprStmt:
			if exprStr(t.X) == "mc.mu.Lock()" {
				lockPos = t.Pos()
			}
		}
		return true
	})
	if !okIdx {
		return false, "storage indexed by something other than the key"
	}
	if stores != 1 {
		return false, fmt.Sprintf("%d stores into storage", stores)
	}
	if lockPos == token.NoPos || storePos < lockPos {
		return false, "store not preceded by mc.mu.Lock()"
	}
	if recheckPos < lockPos || recheckPos > storePos {
		return false, "no lookup of storage[key] between mc.mu.Lock() and the store (get-or-create would not be atomic)"
	}
	return true, ""
}
