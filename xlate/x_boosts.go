package main

import (
	"fmt"
	"go/ast"
	"go/token"
	"sort"
	"strings"
)

// Per-document NLP boosts of package database:
//
//	search.go           calculateIntentBoost, applyIntentBoost, boost*Intent, applyActionBoosts, applyTargetBoosts, containsAny
//	cascading_boost.go  cascadingBoost, buildBoostContext, calculateBoostForCommand, calc{Hint,Term,Context}Boost,
//	                    getCommandBase, expandWithSynonyms, extractContexts, intentKeywords, getIntentBoost, containsWord
//	processor.go (nlp)  GetSynonyms
//
// -> Gen/Boosts.lean in the vocabulary of Basic/BoostRule.lean, interpreted by Model/Boosts.lean.
//
// Translated (a change shows up in Gen/Boosts.lean): every substring literal, every factor, every operator and the
// statement order of the boost*Intent / apply*Boosts functions (statement language `Stmt`), the intent switch of
// applyIntentBoost, the constants and the order / arguments of the `boost +=` lines of calculateBoostForCommand,
// the `knownContexts` and `intentKeywords` tables, the return literals of the calc*/getIntentBoost helpers.
// Asserted (a change trips the named site): the glue around them - see the sites `boosts:*` below.

const boostsDB = "internal/database"

type boostsBind struct {
	kind string // "subj", "src", "var", "intent"
	lean string // .cmd / .desc / .actions / .targets
}

type boostsX struct {
	x       *X
	bad     []string
	intents map[string]string // nlp.IntentX -> value
	lits    map[string]bool   // substring literals seen (for the harness generator)
}

func (b *boostsX) fail(fn string, n ast.Node, why string) {
	pos := ""
	if n != nil {
		p := b.x.Fset.Position(n.Pos())
		pos = fmt.Sprintf("%s:%d ", p.Filename[strings.LastIndex(p.Filename, "/")+1:], p.Line)
	}
	b.bad = append(b.bad, fmt.Sprintf("%s%s: %s", pos, fn, why))
}

func (b *boostsX) strConst(e ast.Expr) (string, bool) {
	s, ok := b.x.constStr(e)
	if !ok || !isASCII(s) {
		return "", false
	}
	b.lits[s] = true
	return s, true
}

// cond ::= containsAny(x, []string{lits}) | strings.Contains(x, lit) | strings.Contains(x, v) | v == lit | !c | c && c | c || c | (c)
func (b *boostsX) cond(fn string, e ast.Expr, env map[string]boostsBind) (string, bool) {
	x := b.x
	switch t := e.(type) {
	case *ast.ParenExpr:
		return b.cond(fn, t.X, env)
	case *ast.UnaryExpr:
		if t.Op == token.NOT {
			c, ok := b.cond(fn, t.X, env)
			return ".not (" + c + ")", ok
		}
	case *ast.BinaryExpr:
		switch t.Op {
		case token.LAND, token.LOR:
			l, ok1 := b.cond(fn, t.X, env)
			r, ok2 := b.cond(fn, t.Y, env)
			op := ".and"
			if t.Op == token.LOR {
				op = ".or"
			}
			return op + " (" + l + ") (" + r + ")", ok1 && ok2
		case token.EQL:
			v, lit := t.X, t.Y
			if _, isLit := b.x.constStr(v); isLit {
				v, lit = lit, v
			}
			if id, ok := v.(*ast.Ident); ok && env[id.Name].kind == "var" {
				if s, ok := b.strConst(lit); ok {
					return ".varEq " + leanStr(s), true
				}
			}
		}
	case *ast.CallExpr:
		if t.Ellipsis != token.NoPos || len(t.Args) != 2 {
			break
		}
		subj, ok := t.Args[0].(*ast.Ident)
		if !ok || env[subj.Name].kind != "subj" {
			break
		}
		s := env[subj.Name].lean
		switch x.nodeStr(t.Fun) {
		case "containsAny":
			cl, ok := t.Args[1].(*ast.CompositeLit)
			if !ok || x.nodeStr(cl.Type) != "[]string" {
				break
			}
			var lits []string
			good := true
			for _, el := range cl.Elts {
				v, ok := b.strConst(el)
				if !ok {
					good = false
				}
				lits = append(lits, v)
			}
			if good {
				return ".containsAny " + s + " " + leanStrList(lits), true
			}
		case "strings.Contains":
			if id, ok := t.Args[1].(*ast.Ident); ok && env[id.Name].kind == "var" {
				return ".containsVar " + s, true
			}
			if v, ok := b.strConst(t.Args[1]); ok {
				return ".contains " + s + " " + leanStr(v), true
			}
		}
	}
	b.fail(fn, e, "unrecognised condition `"+b.x.nodeStr(e)+"`")
	return ".varEq \"\"", false
}

// block translates a statement list into a `Stmt` term; `declared` says whether `boost` is in scope.
func (b *boostsX) block(fn string, stmts []ast.Stmt, env map[string]boostsBind, declared bool, ind string) string {
	x := b.x
	var out []string
	for _, st := range stmts {
		switch s := st.(type) {
		case *ast.ReturnStmt:
			if len(s.Results) == 1 {
				if id, ok := s.Results[0].(*ast.Ident); ok && id.Name == "boost" && declared {
					out = append(out, ".retBoost")
					continue
				}
				if q, ok := numLitQ(s.Results[0]); ok {
					out = append(out, ".ret "+q)
					continue
				}
			}
			b.fail(fn, s, "unrecognised return `"+x.nodeStr(s)+"`")
		case *ast.AssignStmt:
			if len(s.Lhs) == 1 && len(s.Rhs) == 1 && x.nodeStr(s.Lhs[0]) == "boost" {
				if q, ok := numLitQ(s.Rhs[0]); ok {
					if s.Tok == token.DEFINE && !declared {
						declared = true
						out = append(out, ".set "+q)
						continue
					}
					if s.Tok == token.MUL_ASSIGN && declared {
						out = append(out, ".mul "+q)
						continue
					}
				}
			}
			b.fail(fn, s, "unrecognised assignment `"+x.nodeStr(s)+"` (only `boost := lit` once per scope chain and `boost *= lit`)")
		case *ast.IfStmt:
			if s.Init != nil {
				b.fail(fn, s, "if with init statement")
				continue
			}
			c, ok := b.cond(fn, s.Cond, env)
			if !ok {
				continue
			}
			th := b.block(fn, s.Body.List, env, declared, ind+"  ")
			el := ".skip"
			switch e := s.Else.(type) {
			case nil:
			case *ast.BlockStmt:
				el = b.block(fn, e.List, env, declared, ind+"  ")
			case *ast.IfStmt:
				el = b.block(fn, []ast.Stmt{e}, env, declared, ind+"  ")
			default:
				b.fail(fn, s, "unrecognised else")
			}
			out = append(out, ".ite ("+c+")\n"+ind+"  ("+th+")\n"+ind+"  ("+el+")")
		case *ast.RangeStmt:
			key, okk := s.Key.(*ast.Ident)
			val, okv := s.Value.(*ast.Ident)
			src, oks := s.X.(*ast.Ident)
			if !okk || !okv || !oks || key.Name != "_" || s.Tok != token.DEFINE || env[src.Name].kind != "src" || val.Name == "boost" {
				b.fail(fn, s, "unrecognised loop header `for "+x.nodeStr(s.Key)+", … := range "+x.nodeStr(s.X)+"`")
				continue
			}
			env2 := map[string]boostsBind{}
			for k, v := range env {
				if v.kind != "var" { // one loop variable at a time (the interpreter has one register)
					env2[k] = v
				}
			}
			env2[val.Name] = boostsBind{kind: "var"}
			body := b.block(fn, s.Body.List, env2, declared, ind+"  ")
			out = append(out, ".loop "+env[src.Name].lean+"\n"+ind+"  ("+body+")")
		default:
			b.fail(fn, st, "unrecognised statement `"+x.nodeStr(st)+"`")
		}
	}
	switch len(out) {
	case 0:
		return ".skip"
	case 1:
		return out[0]
	}
	return ".block [\n" + ind + "  " + strings.Join(out, ",\n"+ind+"  ") + "]"
}

// endsInReturn: every path through the statement list ends in a return (so "falling off the end" cannot happen)
func boostsEndsInReturn(stmts []ast.Stmt) bool {
	if len(stmts) == 0 {
		return false
	}
	switch s := stmts[len(stmts)-1].(type) {
	case *ast.ReturnStmt:
		return true
	case *ast.IfStmt:
		if s.Else == nil {
			return false
		}
		eb, ok := s.Else.(*ast.BlockStmt)
		if !ok {
			return boostsEndsInReturn(s.Body.List) && boostsEndsInReturn([]ast.Stmt{s.Else})
		}
		return boostsEndsInReturn(s.Body.List) && boostsEndsInReturn(eb.List)
	}
	return false
}

// call translates the body of the database function called by `ce` with the caller's bindings of its arguments.
func (b *boostsX) call(caller string, ce *ast.CallExpr, env map[string]boostsBind, want []string) (name, body string, ok bool) {
	x := b.x
	id, isId := ce.Fun.(*ast.Ident)
	if !isId || ce.Ellipsis != token.NoPos {
		b.fail(caller, ce, "call of a plain function expected: `"+x.nodeStr(ce)+"`")
		return "", "", false
	}
	fd := x.Func(boostsDB, id.Name)
	if fd == nil || fd.Body == nil || fd.Recv != nil {
		b.fail(caller, ce, "function "+id.Name+" not found in package database")
		return id.Name, "", false
	}
	if fd.Type.Results == nil || len(fd.Type.Results.List) != 1 || x.nodeStr(fd.Type.Results.List[0].Type) != "float64" {
		b.fail(id.Name, fd, "result type float64 expected")
		return id.Name, "", false
	}
	var pnames []string
	for _, f := range fd.Type.Params.List {
		for _, n := range f.Names {
			pnames = append(pnames, n.Name)
		}
	}
	if len(pnames) != len(ce.Args) {
		b.fail(caller, ce, "argument count")
		return id.Name, "", false
	}
	env2 := map[string]boostsBind{}
	var kinds []string
	for i, a := range ce.Args {
		bd, known := boostsBind{}, false
		if aid, ok := a.(*ast.Ident); ok {
			bd, known = env[aid.Name]
		} else {
			bd, known = env[x.nodeStr(a)] // pq.Intent / pq.Actions / pq.Targets
		}
		if !known {
			b.fail(caller, a, "argument `"+x.nodeStr(a)+"` is not one of the modelled inputs")
			return id.Name, "", false
		}
		kinds = append(kinds, bd.kind)
		if pnames[i] != "_" {
			env2[pnames[i]] = bd
		}
	}
	if want != nil && strings.Join(kinds, ",") != strings.Join(want, ",") {
		b.fail(caller, ce, "arguments of kinds "+strings.Join(want, ",")+" expected, got "+strings.Join(kinds, ","))
		return id.Name, "", false
	}
	if !boostsEndsInReturn(fd.Body.List) {
		b.fail(id.Name, fd, "function must end in a return on every path")
	}
	return id.Name, b.block(id.Name, fd.Body.List, env2, false, "    "), true
}

// boostsParams prints a parameter list as "a T, b U" (one entry per name).
func boostsParams(x *X, fd *ast.FuncDecl) string {
	var ps []string
	for _, f := range fd.Type.Params.List {
		for _, n := range f.Names {
			ps = append(ps, n.Name+" "+x.nodeStr(f.Type))
		}
	}
	return strings.Join(ps, ", ")
}

func boostsIntentConsts(x *X) map[string]string {
	intents := map[string]string{}
	for _, f := range x.Pkg(nlpDir) {
		for _, d := range f.Decls {
			gd, ok := d.(*ast.GenDecl)
			if !ok || gd.Tok != token.CONST {
				continue
			}
			for _, sp := range gd.Specs {
				vs := sp.(*ast.ValueSpec)
				if vs.Type != nil && x.nodeStr(vs.Type) == "QueryIntent" && len(vs.Names) == 1 && len(vs.Values) == 1 {
					if s, ok := strLit(vs.Values[0]); ok && isASCII(s) {
						intents[vs.Names[0].Name] = s
					}
				}
			}
		}
	}
	return intents
}

// bodyIs asserts that a function exists and its body prints exactly as `want` (white space collapsed).
func (b *boostsX) bodyIs(site, dir, fn, want, why string) bool {
	x := b.x
	fd := x.Func(dir, fn)
	if fd == nil || fd.Body == nil {
		return x.Assert(site, false, "%s not found", fn)
	}
	got := x.nodeStr(fd.Body)
	return x.Assert(site, got == want, "%s: %s; got %s", fn, why, got)
}

func init() {
	register("o_boosts", func(x *X) {
		b := &boostsX{x: x, intents: boostsIntentConsts(x), lits: map[string]bool{}}
		if !x.Assert("boosts:intent-constants", len(b.intents) >= 2, "QueryIntent constants of package nlp expected, got %v", b.intents) {
			return
		}
		es := x.nodeStr

		// ================= search.go: calculateIntentBoost =================
		var intentInit string
		var intentCases [][3]string // intent value, callee, body
		intentDefault := ""
		actionBody, targetBody := "", ""
		var factorOrder []string
		fd := x.Func(boostsDB, "calculateIntentBoost")
		if !x.Assert("boosts:calculateIntentBoost", fd != nil && fd.Body != nil && fd.Recv == nil, "calculateIntentBoost not found") {
			return
		}
		{
			x.Assert("boosts:calculateIntentBoost:signature", boostsParams(x, fd) == "cmd *Command, pq *nlp.ProcessedQuery",
				"calculateIntentBoost(cmd *Command, pq *nlp.ProcessedQuery) expected; got (%s)", boostsParams(x, fd))
			env := map[string]boostsBind{
				"pq.Intent":  {kind: "intent"},
				"pq.Actions": {kind: "src", lean: ".actions"},
				"pq.Targets": {kind: "src", lean: ".targets"},
			}
			shape := true
			returned := false
			for i, st := range fd.Body.List {
				if returned {
					shape = false
				}
				switch s := st.(type) {
				case *ast.AssignStmt:
					if len(s.Lhs) != 1 || len(s.Rhs) != 1 {
						shape = false
						continue
					}
					lhs := es(s.Lhs[0])
					switch {
					case s.Tok == token.DEFINE && lhs == "boost" && i == 0:
						q, ok := numLitQ(s.Rhs[0])
						intentInit, shape = q, shape && ok
					case s.Tok == token.DEFINE && es(s.Rhs[0]) == "strings.ToLower(cmd.Command)":
						env[lhs] = boostsBind{kind: "subj", lean: ".cmd"}
					case s.Tok == token.DEFINE && es(s.Rhs[0]) == "strings.ToLower(cmd.Description)":
						env[lhs] = boostsBind{kind: "subj", lean: ".desc"}
					case s.Tok == token.MUL_ASSIGN && lhs == "boost":
						ce, ok := s.Rhs[0].(*ast.CallExpr)
						if !ok {
							shape = false
							continue
						}
						switch es(ce.Fun) {
						case "applyIntentBoost":
							factorOrder = append(factorOrder, "intent")
							intentCases, intentDefault = b.intentSwitch(ce, env)
						case "applyActionBoosts":
							factorOrder = append(factorOrder, "actions")
							_, actionBody, _ = b.call("calculateIntentBoost", ce, env, []string{"subj", "subj", "src"})
						case "applyTargetBoosts":
							factorOrder = append(factorOrder, "targets")
							_, targetBody, _ = b.call("calculateIntentBoost", ce, env, []string{"subj", "subj", "src"})
						default:
							shape = false
						}
					default:
						shape = false
					}
				case *ast.ReturnStmt:
					returned = true
					shape = shape && es(s) == "return boost"
				default:
					shape = false
				}
			}
			x.Assert("boosts:calculateIntentBoost:shape", shape && returned && intentInit != "" &&
				strings.Join(factorOrder, ",") == "intent,actions,targets",
				"calculateIntentBoost must be: boost := lit; lower-case command and description; boost *= applyIntentBoost(..); "+
					"boost *= applyActionBoosts(..); boost *= applyTargetBoosts(..); return boost - got factors %v in %s", factorOrder, es(fd.Body))
		}
		b.bodyIs("boosts:containsAny:shape", boostsDB, "containsAny",
			"{ for _, substr := range substrings { if strings.Contains(s, substr) { return true } } return false }",
			"must be `some element of substrings is a substring of s`")
		// call sites in SearchUniversal's pipeline
		if cr := x.Func(boostsDB, "collectResults"); x.Assert("boosts:collectResults", cr != nil && cr.Body != nil, "collectResults not found") {
			n, cmdOK := 0, false
			ast.Inspect(cr.Body, func(nd ast.Node) bool {
				switch s := nd.(type) {
				case *ast.IfStmt:
					if es(s.Cond) == "pq != nil" && s.Init == nil && len(s.Body.List) > 0 && es(s.Body.List[0]) == "score *= calculateIntentBoost(cmd, pq)" {
						n++
					}
				case *ast.AssignStmt:
					if es(s) == "cmd := &db.Commands[docID]" {
						cmdOK = true
					}
				}
				return true
			})
			calls := 0
			ast.Inspect(cr.Body, func(nd ast.Node) bool {
				if ce, ok := nd.(*ast.CallExpr); ok && es(ce.Fun) == "calculateIntentBoost" {
					calls++
				}
				return true
			})
			x.Assert("boosts:collectResults:intent-call", n == 1 && calls == 1 && cmdOK,
				"collectResults must apply `score *= calculateIntentBoost(cmd, pq)` once, first thing under `if pq != nil`, with cmd := &db.Commands[docID]")
		}

		// ================= how SearchUniversal obtains pq =================
		if su := x.Func(boostsDB, "SearchUniversal"); x.Assert("boosts:SearchUniversal", su != nil && su.Body != nil, "SearchUniversal not found") {
			seq := []string{}
			other := 0
			for _, st := range su.Body.List {
				s := es(st)
				switch {
				case s == "query = strings.ToLower(strings.TrimSpace(query))":
					seq = append(seq, "norm")
				case s == "var pq *nlp.ProcessedQuery":
					seq = append(seq, "decl")
				case s == "if options.UseNLP { pq, terms = db.enhanceQueryWithNLP(query, terms) }":
					seq = append(seq, "nlp")
				case s == "scores := db.calculateInitialScores(terms, pq, options)":
					seq = append(seq, "scores")
				case s == "results := db.collectResults(scores, pq, options)":
					seq = append(seq, "collect")
				case s == "results = db.applyPostScoringBoosts(results, pq, query, options)":
					seq = append(seq, "post")
				default:
					// no other statement may assign pq or query
					ast.Inspect(st, func(nd ast.Node) bool {
						if as, ok := nd.(*ast.AssignStmt); ok {
							for _, l := range as.Lhs {
								if n := es(l); n == "pq" || n == "query" {
									other++
								}
							}
						}
						return true
					})
				}
			}
			x.Assert("boosts:SearchUniversal:pq", strings.Join(seq, ",") == "norm,decl,nlp,scores,collect,post" && other == 0,
				"SearchUniversal must normalise the query, obtain pq only from enhanceQueryWithNLP(query, terms) under options.UseNLP, and hand it to "+
					"calculateInitialScores / collectResults / applyPostScoringBoosts; got %v (%d other assignments to pq/query)", seq, other)
		}
		if en := x.Func(boostsDB, "enhanceQueryWithNLP"); x.Assert("boosts:enhanceQueryWithNLP", en != nil && en.Body != nil && len(en.Body.List) >= 4, "enhanceQueryWithNLP not found") {
			l := en.Body.List
			x.Assert("boosts:enhanceQueryWithNLP:pq", es(l[0]) == "processor := nlp.NewQueryProcessor()" && es(l[1]) == "pq = processor.ProcessQuery(query)" &&
				es(l[2]) == "enh := pq.GetEnhancedKeywords()" && es(l[len(l)-1]) == "return pq, terms",
				"enhanceQueryWithNLP must analyse `query` with a fresh processor (pq = processor.ProcessQuery(query); enh := pq.GetEnhancedKeywords()) and return that pq")
		}
		if ap := x.Func(boostsDB, "applyPostScoringBoosts"); x.Assert("boosts:applyPostScoringBoosts", ap != nil && ap.Body != nil, "applyPostScoringBoosts not found") {
			n := 0
			for _, st := range ap.Body.List {
				if es(st) == "if options.UseNLP && pq != nil && len(results) > 0 { results = db.cascadingBoost(results, pq) }" {
					n++
				}
			}
			x.Assert("boosts:applyPostScoringBoosts:cascade-call", n == 1, "applyPostScoringBoosts must call db.cascadingBoost(results, pq) under `options.UseNLP && pq != nil && len(results) > 0`")
		}

		// ================= cascading_boost.go =================
		b.bodyIs("boosts:cascadingBoost:shape", boostsDB, "cascadingBoost",
			"{ if pq == nil || len(results) == 0 { return results } ctx := db.buildBoostContext(pq) for i, r := range results { boost := db.calculateBoostForCommand(r.Command, ctx) results[i].Score *= boost } "+
				"sort.SliceStable(results, func(i, j int) bool { return results[i].Score > results[j].Score }) return results }",
			"must multiply every score by calculateBoostForCommand(r.Command, buildBoostContext(pq)) and re-sort stably, descending")
		b.bodyIs("boosts:buildBoostContext:shape", boostsDB, "buildBoostContext",
			"{ processor := nlp.NewQueryProcessor() return boostContext{ actionTerms: expandWithSynonyms(pq.Actions, processor), targetTerms: expandWithSynonyms(pq.Targets, processor), "+
				"keywordTerms: expandWithSynonyms(pq.Keywords, processor), commandHints: pq.GetEnhancedKeywords(), contexts: extractContexts(pq.Keywords), intent: pq.Intent, } }",
			"must build the six context fields from pq the modelled way")
		b.bodyIs("boosts:expandWithSynonyms:shape", boostsDB, "expandWithSynonyms",
			"{ expanded := make([]string, 0, len(terms)*2) seen := make(map[string]bool) for _, term := range terms { term = strings.ToLower(term) if !seen[term] { expanded = append(expanded, term) seen[term] = true } "+
				"synonyms := processor.GetSynonyms(term) for _, syn := range synonyms { syn = strings.ToLower(syn) if !seen[syn] { expanded = append(expanded, syn) seen[syn] = true } } } return expanded }",
			"must append each lower-cased term, then its lower-cased synonyms, skipping what was seen")
		b.bodyIs("boosts:GetSynonyms:shape", nlpDir, "GetSynonyms",
			"{ word = strings.ToLower(word) if synonyms, found := qp.synonyms[word]; found { return synonyms } return nil }",
			"must look the lower-cased word up in qp.synonyms")
		b.bodyIs("boosts:containsWord:shape", boostsDB, "containsWord",
			`{ text = " " + text + " " word = " " + word + " " return strings.Contains(text, word) }`,
			"must test ` word ` inside ` text `")
		b.bodyIs("boosts:getCommandBase:shape", boostsDB, "getCommandBase",
			"{ parts := strings.Fields(cmd) if len(parts) > 0 { return parts[0] } return cmd }",
			"must return the first white-space separated field, or the string itself")

		// calc*Boost helpers: fixed shape with one "miss" literal each
		missLit := func(site, fn, tmpl string) string {
			fd := x.Func(boostsDB, fn)
			if fd == nil || fd.Body == nil || len(fd.Body.List) == 0 {
				x.Assert(site, false, "%s not found", fn)
				return ""
			}
			rs, ok := fd.Body.List[len(fd.Body.List)-1].(*ast.ReturnStmt)
			q, txt := "", ""
			if ok && len(rs.Results) == 1 {
				q, ok = numLitQ(rs.Results[0])
				txt = es(rs.Results[0])
			}
			want := fmt.Sprintf(tmpl, txt)
			if !x.Assert(site, ok && q != "" && es(fd.Body) == want, "%s no longer has the modelled shape; got %s", fn, es(fd.Body)) {
				return ""
			}
			return q
		}
		hintMiss := missLit("boosts:calcHintBoost:shape", "calcHintBoost",
			"{ cmdLower := strings.ToLower(command) cmdBase := getCommandBase(cmdLower) for _, hint := range hints { hintLower := strings.ToLower(hint) "+
				"if cmdBase == hintLower || cmdLower == hintLower { return boostVal } } return %s }")
		termMiss := missLit("boosts:calcTermBoost:shape", "calcTermBoost",
			"{ for _, term := range terms { if containsWord(searchText, term) { return boostVal } } return %s }")
		ctxMiss := missLit("boosts:calcContextBoost:shape", "calcContextBoost",
			"{ for _, ctx := range contexts { if containsWord(command, ctx) || containsWord(searchText, ctx) { return boostVal } } return %s }")
		for _, sg := range [][2]string{{"calcHintBoost", "command string, hints []string, boostVal float64"}, {"calcTermBoost", "searchText string, terms []string, boostVal float64"},
			{"calcContextBoost", "command string, searchText string, contexts []string, boostVal float64"}, {"getIntentBoost", "intent nlp.QueryIntent, searchText string"},
			{"containsWord", "text string, word string"}, {"expandWithSynonyms", "terms []string, processor *nlp.QueryProcessor"}, {"extractContexts", "keywords []string"},
			{"containsAny", "s string, substrings []string"}} {
			if fd := x.Func(boostsDB, sg[0]); fd != nil {
				got := boostsParams(x, fd)
				x.Assert("boosts:"+sg[0]+":signature", got == sg[1], "%s(%s) expected; got (%s)", sg[0], sg[1], got)
			} else {
				x.Assert("boosts:"+sg[0]+":signature", false, "%s not found", sg[0])
			}
		}

		// getIntentBoost: map lookup, first keyword contained as a word -> hit literal
		var ibNoEntry, ibHit, ibMiss string
		if fd := x.Func(boostsDB, "getIntentBoost"); x.Assert("boosts:getIntentBoost", fd != nil && fd.Body != nil, "getIntentBoost not found") {
			ok := false
			var t [3]string
			if l := fd.Body.List; len(l) == 4 {
				if is, k := l[1].(*ast.IfStmt); k && len(is.Body.List) == 1 {
					if rs, k := is.Body.List[0].(*ast.ReturnStmt); k && len(rs.Results) == 1 {
						ibNoEntry, _ = numLitQ(rs.Results[0])
						t[0] = es(rs.Results[0])
					}
				}
				if fs, k := l[2].(*ast.RangeStmt); k && len(fs.Body.List) == 1 {
					if is, k := fs.Body.List[0].(*ast.IfStmt); k && len(is.Body.List) == 1 {
						if rs, k := is.Body.List[0].(*ast.ReturnStmt); k && len(rs.Results) == 1 {
							ibHit, _ = numLitQ(rs.Results[0])
							t[1] = es(rs.Results[0])
						}
					}
				}
				if rs, k := l[3].(*ast.ReturnStmt); k && len(rs.Results) == 1 {
					ibMiss, _ = numLitQ(rs.Results[0])
					t[2] = es(rs.Results[0])
				}
				ok = ibNoEntry != "" && ibHit != "" && ibMiss != "" && es(fd.Body) == fmt.Sprintf(
					"{ keywords, ok := intentKeywords[intent] if !ok { return %s } for _, kw := range keywords { if containsWord(searchText, kw) { return %s } } return %s }", t[0], t[1], t[2])
			}
			x.Assert("boosts:getIntentBoost:shape", ok, "getIntentBoost must be: look the intent up in intentKeywords (absent: literal), literal if some keyword is a word of searchText, else literal; got %s", es(fd.Body))
		}

		// intentKeywords: package-level map[nlp.QueryIntent][]string literal; assigned nowhere else
		type ik struct {
			intent string
			words  []string
		}
		var ikw []ik
		{
			ok, found := true, false
			for _, f := range x.Pkg(boostsDB) {
				for _, d := range f.Decls {
					gd, isG := d.(*ast.GenDecl)
					if !isG || gd.Tok != token.VAR {
						continue
					}
					for _, sp := range gd.Specs {
						vs := sp.(*ast.ValueSpec)
						if len(vs.Names) != 1 || vs.Names[0].Name != "intentKeywords" {
							continue
						}
						found = true
						if len(vs.Values) != 1 {
							ok = false
							continue
						}
						cl, isC := vs.Values[0].(*ast.CompositeLit)
						if !isC || es(cl.Type) != "map[nlp.QueryIntent][]string" {
							ok = false
							continue
						}
						for _, e := range cl.Elts {
							kv, isKV := e.(*ast.KeyValueExpr)
							if !isKV {
								ok = false
								continue
							}
							sel, isS := kv.Key.(*ast.SelectorExpr)
							vl, isV := kv.Value.(*ast.CompositeLit)
							if !isS || !isV || es(sel.X) != "nlp" {
								ok = false
								continue
							}
							iv, known := b.intents[sel.Sel.Name]
							if !known {
								ok = false
								continue
							}
							var ws []string
							for _, ve := range vl.Elts {
								s, k := b.strConst(ve)
								if !k {
									ok = false
								}
								ws = append(ws, s)
							}
							ikw = append(ikw, ik{iv, ws})
						}
					}
				}
			}
			// written only by its declaration
			writes := 0
			for _, f := range x.Pkg(boostsDB) {
				ast.Inspect(f, func(nd ast.Node) bool {
					switch s := nd.(type) {
					case *ast.AssignStmt:
						for _, l := range s.Lhs {
							if strings.HasPrefix(es(l), "intentKeywords") {
								writes++
							}
						}
					case *ast.CallExpr:
						if es(s.Fun) == "delete" && len(s.Args) > 0 && es(s.Args[0]) == "intentKeywords" {
							writes++
						}
					}
					return true
				})
			}
			x.Assert("boosts:intentKeywords:literal", found && ok && len(ikw) > 0 && writes == 0,
				"package variable intentKeywords must be a map[nlp.QueryIntent][]string literal of nlp.IntentX keys and ASCII string lists, never assigned (found=%v ok=%v writes=%d)", found, ok, writes)
		}

		// extractContexts: knownContexts table + loop
		var known []string
		if fd := x.Func(boostsDB, "extractContexts"); x.Assert("boosts:extractContexts", fd != nil && fd.Body != nil, "extractContexts not found") {
			ok := false
			if l := fd.Body.List; len(l) == 4 {
				if as, k := l[0].(*ast.AssignStmt); k && as.Tok == token.DEFINE && len(as.Lhs) == 1 && es(as.Lhs[0]) == "knownContexts" && len(as.Rhs) == 1 {
					if cl, k := as.Rhs[0].(*ast.CompositeLit); k && es(cl.Type) == "map[string]bool" {
						ok = true
						for _, e := range cl.Elts {
							kv, isKV := e.(*ast.KeyValueExpr)
							if !isKV || es(kv.Value) != "true" {
								ok = false
								continue
							}
							s, k := b.strConst(kv.Key)
							if !k {
								ok = false
							}
							known = append(known, s)
						}
					}
				}
				ok = ok && es(l[1]) == "var contexts []string" &&
					es(l[2]) == "for _, kw := range keywords { kwLower := strings.ToLower(kw) if knownContexts[kwLower] { contexts = append(contexts, kwLower) } }" &&
					es(l[3]) == "return contexts"
			}
			x.Assert("boosts:extractContexts:shape", ok && len(known) > 0,
				"extractContexts must be: knownContexts := map[string]bool{\"lit\": true, ...}; collect the lower-cased keywords that are in it, in order; got %s", es(fd.Body))
		}

		// calculateBoostForCommand
		var cInit string
		var cTerms []string
		if fd := x.Func(boostsDB, "calculateBoostForCommand"); x.Assert("boosts:calculateBoostForCommand", fd != nil && fd.Body != nil, "calculateBoostForCommand not found") {
			consts := map[string]string{}
			shape := boostsParams(x, fd) == "cmd *Command, ctx boostContext"
			returned := false
			haveText := false
			val := func(e ast.Expr) (string, bool) {
				if id, ok := e.(*ast.Ident); ok {
					q, ok := consts[id.Name]
					return q, ok
				}
				return numLitQ(e)
			}
			for i, st := range fd.Body.List {
				if returned {
					shape = false
				}
				switch s := st.(type) {
				case *ast.DeclStmt:
					gd, ok := s.Decl.(*ast.GenDecl)
					if !ok || gd.Tok != token.CONST || i != 0 {
						shape = false
						continue
					}
					for _, sp := range gd.Specs {
						vs := sp.(*ast.ValueSpec)
						if len(vs.Names) != 1 || len(vs.Values) != 1 || vs.Type != nil {
							shape = false
							continue
						}
						q, ok := numLitQ(vs.Values[0])
						if !ok || !strings.Contains(es(vs.Values[0]), ".") { // untyped float constants only (an int constant would not convert silently at the call)
							shape = false
							continue
						}
						consts[vs.Names[0].Name] = q
					}
				case *ast.AssignStmt:
					if len(s.Lhs) != 1 || len(s.Rhs) != 1 {
						shape = false
						continue
					}
					lhs := es(s.Lhs[0])
					switch {
					case s.Tok == token.DEFINE && lhs == "boost" && cInit == "":
						q, ok := numLitQ(s.Rhs[0])
						cInit, shape = q, shape && ok
					case s.Tok == token.DEFINE && lhs == "searchText":
						haveText = true
						shape = shape && es(s.Rhs[0]) == `strings.ToLower(cmd.Command + " " + cmd.Description + " " + strings.Join(cmd.Keywords, " "))`
					case s.Tok == token.ADD_ASSIGN && lhs == "boost" && cInit != "" && haveText:
						ce, ok := s.Rhs[0].(*ast.CallExpr)
						if !ok {
							shape = false
							continue
						}
						args := make([]string, len(ce.Args))
						for i, a := range ce.Args {
							args[i] = es(a)
						}
						head := es(ce.Fun) + "/" + fmt.Sprint(len(args))
						switch {
						case head == "calcHintBoost/3" && args[0] == "cmd.Command" && args[1] == "ctx.commandHints":
							q, ok := val(ce.Args[2])
							shape = shape && ok
							cTerms = append(cTerms, ".hint "+q)
						case head == "calcTermBoost/3" && args[0] == "searchText" && (args[1] == "ctx.actionTerms" || args[1] == "ctx.targetTerms" || args[1] == "ctx.keywordTerms"):
							q, ok := val(ce.Args[2])
							shape = shape && ok
							cTerms = append(cTerms, ".term ."+strings.TrimPrefix(args[1], "ctx.")+" "+q)
						case head == "calcContextBoost/4" && args[0] == "cmd.Command" && args[1] == "searchText" && args[2] == "ctx.contexts":
							q, ok := val(ce.Args[3])
							shape = shape && ok
							cTerms = append(cTerms, ".context "+q)
						case head == "getIntentBoost/2" && args[0] == "ctx.intent" && args[1] == "searchText":
							cTerms = append(cTerms, ".intent")
						default:
							shape = false
						}
					default:
						shape = false
					}
				case *ast.ReturnStmt:
					returned = true
					shape = shape && es(s) == "return boost"
				default:
					shape = false
				}
			}
			x.Assert("boosts:calculateBoostForCommand:shape", shape && returned && cInit != "" && haveText,
				"calculateBoostForCommand must be: float constants; boost := lit; searchText := lower(command+\" \"+description+\" \"+join(keywords)); "+
					"`boost += calcHintBoost|calcTermBoost|calcContextBoost|getIntentBoost(<modelled arguments>)` lines; return boost - got %s", es(fd.Body))
		}
		// boostContext: the six fields, all set by buildBoostContext (asserted above)
		{
			var fields []string
			for _, f := range x.Pkg(boostsDB) {
				for _, d := range f.Decls {
					gd, ok := d.(*ast.GenDecl)
					if !ok || gd.Tok != token.TYPE {
						continue
					}
					for _, sp := range gd.Specs {
						ts := sp.(*ast.TypeSpec)
						if st, ok := ts.Type.(*ast.StructType); ok && ts.Name.Name == "boostContext" {
							for _, fl := range st.Fields.List {
								for _, n := range fl.Names {
									fields = append(fields, n.Name+" "+es(fl.Type))
								}
							}
						}
					}
				}
			}
			x.Assert("boosts:boostContext:fields", strings.Join(fields, "; ") ==
				"actionTerms []string; targetTerms []string; keywordTerms []string; commandHints []string; contexts []string; intent nlp.QueryIntent",
				"boostContext fields changed: %v", fields)
		}

		x.Assert("boosts:recogniser", len(b.bad) == 0, "%d unrecognised constructs in the intent-boost functions: %s", len(b.bad), strings.Join(b.bad, " | "))
		if len(b.bad) != 0 || intentInit == "" || intentDefault == "" || actionBody == "" || targetBody == "" || cInit == "" ||
			hintMiss == "" || termMiss == "" || ctxMiss == "" || ibNoEntry == "" || ibHit == "" || ibMiss == "" || len(known) == 0 || len(ikw) == 0 {
			return
		}

		// ================= emit =================
		var sb strings.Builder
		sb.WriteString("import WtfModel.Basic.BoostRule\nnamespace Wtf.Gen.Boosts\nopen Wtf.Boost\n\n")
		fmt.Fprintf(&sb, "/-- calculateIntentBoost: `boost := <lit>`, then `boost *=` applyIntentBoost, applyActionBoosts, applyTargetBoosts (order asserted) -/\ndef intentInit : Wtf.Q := %s\n\n", intentInit)
		sb.WriteString("/-- applyIntentBoost: `switch intent { case nlp.IntentX: return boostXIntent(…) }` as (intent value, translated body of the callee\n    with the call's argument binding), in source order; then `return <lit>` -/\ndef intentSwitch : List (String × Stmt) := [\n")
		for i, c := range intentCases {
			fmt.Fprintf(&sb, "  -- %s\n  (%s,\n    %s)", c[1], leanStr(c[0]), c[2])
			if i < len(intentCases)-1 {
				sb.WriteString(",")
			}
			sb.WriteString("\n")
		}
		fmt.Fprintf(&sb, "]\ndef intentDefault : Wtf.Q := %s\n\n", intentDefault)
		fmt.Fprintf(&sb, "/-- applyActionBoosts(cmdLower, descLower, pq.Actions) -/\ndef actionBoosts : Stmt :=\n    %s\n\n", actionBody)
		fmt.Fprintf(&sb, "/-- applyTargetBoosts(cmdLower, descLower, pq.Targets) -/\ndef targetBoosts : Stmt :=\n    %s\n\n", targetBody)
		fmt.Fprintf(&sb, "/-- calculateBoostForCommand: `boost := <lit>` and the `boost += …` lines in source order (constants resolved) -/\ndef cascadeInit : Wtf.Q := %s\n", cInit)
		fmt.Fprintf(&sb, "def cascadeTerms : List CTerm := [\n  %s]\n\n", strings.Join(cTerms, ",\n  "))
		fmt.Fprintf(&sb, "/-- the literal each helper returns when nothing matches (calcHintBoost, calcTermBoost, calcContextBoost) -/\n")
		fmt.Fprintf(&sb, "def hintMiss : Wtf.Q := %s\ndef termMiss : Wtf.Q := %s\ndef contextMiss : Wtf.Q := %s\n\n", hintMiss, termMiss, ctxMiss)
		fmt.Fprintf(&sb, "/-- getIntentBoost: intent without an entry / some keyword is a word of the search text / none is -/\n")
		fmt.Fprintf(&sb, "def intentNoEntry : Wtf.Q := %s\ndef intentHit : Wtf.Q := %s\ndef intentMiss : Wtf.Q := %s\n\n", ibNoEntry, ibHit, ibMiss)
		sb.WriteString("/-- var intentKeywords (cascading_boost.go), source order; Go map literals cannot repeat a constant key -/\ndef intentKeywords : List (String × List String) := [\n")
		for i, k := range ikw {
			fmt.Fprintf(&sb, "  (%s, %s)", leanStr(k.intent), leanStrList(k.words))
			if i < len(ikw)-1 {
				sb.WriteString(",")
			}
			sb.WriteString("\n")
		}
		sb.WriteString("]\n\n")
		fmt.Fprintf(&sb, "/-- extractContexts: keys of knownContexts (all mapped to true) -/\ndef knownContexts : List String := %s\n\n", leanStrList(known))
		sb.WriteString("end Wtf.Gen.Boosts\n")
		x.WriteLean("Boosts", sb.String())

		// facts for the harness generator: every substring / word literal of the fragment
		var lits []string
		for l := range b.lits {
			if l != "" && !strings.ContainsAny(l, " ,=") {
				lits = append(lits, l)
			}
		}
		sort.Strings(lits)
		x.Fact("boosts.literals", lits)
		x.Fact("boosts.intentCases", len(intentCases))
		x.Fact("boosts.cascadeTerms", len(cTerms))
	})
}

// intentSwitch translates applyIntentBoost(cmdLower, descLower, pq.Intent): `switch intent { case nlp.IntentX: return f(args) … }; return lit`.
func (b *boostsX) intentSwitch(ce *ast.CallExpr, env map[string]boostsBind) (cases [][3]string, def string) {
	x := b.x
	es := x.nodeStr
	fd := x.Func(boostsDB, "applyIntentBoost")
	if !x.Assert("boosts:applyIntentBoost", fd != nil && fd.Body != nil && fd.Recv == nil, "applyIntentBoost not found") {
		return nil, ""
	}
	var pnames []string
	for _, f := range fd.Type.Params.List {
		for _, n := range f.Names {
			pnames = append(pnames, n.Name)
		}
	}
	env2 := map[string]boostsBind{}
	argsOK := len(pnames) == len(ce.Args)
	nIntent := 0
	if argsOK {
		for i, a := range ce.Args {
			bd, known := env[es(a)]
			if !known {
				argsOK = false
				break
			}
			if bd.kind == "intent" {
				nIntent++
			}
			env2[pnames[i]] = bd
		}
	}
	ok := argsOK && nIntent == 1 && len(fd.Body.List) == 2
	var sw *ast.SwitchStmt
	if ok {
		sw, ok = fd.Body.List[0].(*ast.SwitchStmt)
		ok = ok && sw.Init == nil && sw.Tag != nil
		if ok {
			id, isId := sw.Tag.(*ast.Ident)
			ok = isId && env2[id.Name].kind == "intent"
		}
	}
	if ok {
		rs, isR := fd.Body.List[1].(*ast.ReturnStmt)
		ok = isR && len(rs.Results) == 1
		if ok {
			def, ok = numLitQ(rs.Results[0])
		}
	}
	if ok {
		for _, c := range sw.Body.List {
			cc := c.(*ast.CaseClause)
			if len(cc.List) == 0 || len(cc.Body) != 1 { // no default clause, one statement per case
				ok = false
				break
			}
			rs, isR := cc.Body[0].(*ast.ReturnStmt)
			if !isR || len(rs.Results) != 1 {
				ok = false
				break
			}
			call, isC := rs.Results[0].(*ast.CallExpr)
			if !isC {
				ok = false
				break
			}
			// the callee sees only the two lower-cased strings
			for _, a := range call.Args {
				if id, isId := a.(*ast.Ident); !isId || env2[id.Name].kind != "subj" {
					ok = false
				}
			}
			if !ok {
				break
			}
			name, body, cok := b.call("applyIntentBoost", call, env2, nil)
			if !cok {
				ok = false
				break
			}
			for _, l := range cc.List {
				sel, isS := l.(*ast.SelectorExpr)
				if !isS || es(sel.X) != "nlp" {
					ok = false
					break
				}
				v, known := b.intents[sel.Sel.Name]
				if !known {
					ok = false
					break
				}
				cases = append(cases, [3]string{v, name, body})
			}
		}
	}
	x.Assert("boosts:applyIntentBoost:shape", ok && len(cases) > 0 && def != "",
		"applyIntentBoost must be `switch intent { case nlp.IntentX: return boostXIntent(<lower-cased strings>) … }; return <lit>` with the intent bound to pq.Intent; got %s", es(fd.Body))
	if !ok {
		return nil, ""
	}
	return cases, def
}
