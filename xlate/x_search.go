package main

import (
	"fmt"
	"go/ast"
	"go/constant"
	"go/token"
	"sort"
	"strconv"
	"strings"
)

// helpers ------------------------------------------------------------------------------------

func strLit(e ast.Expr) (string, bool) {
	if bl, ok := e.(*ast.BasicLit); ok && bl.Kind == token.STRING {
		s, err := strconv.Unquote(bl.Value)
		return s, err == nil
	}
	return "", false
}

// constStr resolves a string literal or a selector constants.X (using the constants facts).
func (x *X) constStr(e ast.Expr) (string, bool) {
	if s, ok := strLit(e); ok {
		return s, true
	}
	if se, ok := e.(*ast.SelectorExpr); ok {
		if id, ok := se.X.(*ast.Ident); ok && id.Name == "constants" {
			if m, ok := x.out.Facts["constants"].(map[string]string); ok {
				v, ok := m[se.Sel.Name]
				return v, ok
			}
		}
	}
	return "", false
}

func numLitQ(e ast.Expr) (string, bool) {
	neg := false
	if u, ok := e.(*ast.UnaryExpr); ok && u.Op == token.SUB {
		neg, e = true, u.X
	}
	bl, ok := e.(*ast.BasicLit)
	if !ok || (bl.Kind != token.FLOAT && bl.Kind != token.INT) {
		return "", false
	}
	v := constant.MakeFromLiteral(bl.Value, bl.Kind, 0)
	if neg {
		v = constant.UnaryOp(token.SUB, v, 0)
	}
	return leanQ(v)
}

// stop words: the literal list in nlp.buildStopWords --------------------------------------------
func init() {
	register("a_stopwords", func(x *X) {
		fd := x.Func("internal/nlp", "buildStopWords")
		if !x.Assert("stopwords:func", fd != nil, "nlp.buildStopWords not found") {
			return
		}
		var words []string
		ast.Inspect(fd.Body, func(n ast.Node) bool {
			cl, ok := n.(*ast.CompositeLit)
			if !ok {
				return true
			}
			if at, ok := cl.Type.(*ast.ArrayType); ok {
				if id, ok := at.Elt.(*ast.Ident); ok && id.Name == "string" && words == nil {
					for _, e := range cl.Elts {
						if s, ok := strLit(e); ok {
							words = append(words, s)
						}
					}
				}
			}
			return true
		})
		if !x.Assert("stopwords:literal", len(words) > 0, "expected a []string literal in buildStopWords") {
			return
		}
		// the tokenizers must consult exactly this table
		use := x.Func("internal/database", "normalizeAndTokenize")
		x.Assert("stopwords:tokenizer-uses-nlp.StopWords", use != nil, "normalizeAndTokenize not found")
		var sb strings.Builder
		sb.WriteString("namespace Wtf.Gen.StopWords\n\n/-- nlp.buildStopWords -/\ndef words : List String := ")
		sb.WriteString(leanStrList(words))
		sb.WriteString("\n\nend Wtf.Gen.StopWords\n")
		x.WriteLean("StopWords", sb.String())
		x.Fact("stopwords", words)
	})

	// platform tables ---------------------------------------------------------------------------
	register("b_platform", func(x *X) {
		// crossPlatformTools map literal keys
		var tools []string
		for _, f := range x.Pkg("internal/database") {
			for _, d := range f.Decls {
				gd, ok := d.(*ast.GenDecl)
				if !ok || gd.Tok != token.VAR {
					continue
				}
				for _, sp := range gd.Specs {
					vs := sp.(*ast.ValueSpec)
					if len(vs.Names) == 1 && vs.Names[0].Name == "crossPlatformTools" && len(vs.Values) == 1 {
						if cl, ok := vs.Values[0].(*ast.CompositeLit); ok {
							for _, e := range cl.Elts {
								if kv, ok := e.(*ast.KeyValueExpr); ok {
									if s, ok := x.constStr(kv.Key); ok {
										tools = append(tools, s)
									}
								}
							}
						}
					}
				}
			}
		}
		sort.Strings(tools)
		x.Assert("platform:crossPlatformTools", len(tools) > 0, "map literal crossPlatformTools not found")
		// checkPlatformVariant: switch current { case constants.PlatformX: if pLower == "a" || ... || strings.HasPrefix(pLower, "b") }
		type variant struct {
			host     string
			exact    []string
			prefixes []string
		}
		var variants []variant
		fd := x.Func("internal/database", "checkPlatformVariant")
		okShape := fd != nil
		if fd != nil {
			for _, st := range fd.Body.List {
				sw, ok := st.(*ast.SwitchStmt)
				if !ok {
					continue
				}
				if id, ok := sw.Tag.(*ast.Ident); !ok || id.Name != "current" {
					okShape = false
				}
				for _, c := range sw.Body.List {
					cc := c.(*ast.CaseClause)
					if len(cc.List) == 0 && len(cc.Body) == 1 {
						// `default: return false` (the form that returns the condition of each case directly)
						if rs, ok := cc.Body[0].(*ast.ReturnStmt); ok && len(rs.Results) == 1 {
							if id, ok := rs.Results[0].(*ast.Ident); ok && id.Name == "false" {
								continue
							}
						}
						okShape = false
						continue
					}
					if len(cc.List) != 1 || len(cc.Body) != 1 {
						okShape = false
						continue
					}
					host, ok := x.constStr(cc.List[0])
					if !ok {
						okShape = false
						continue
					}
					v := variant{host: host}
					// either `if <cond> { return true }` (falling through to `return false`) or `return <cond>`
					var cond ast.Expr
					switch b := cc.Body[0].(type) {
					case *ast.IfStmt:
						cond = b.Cond
						if b.Else != nil || b.Init != nil || len(b.Body.List) != 1 {
							okShape = false
						} else if rs, ok := b.Body.List[0].(*ast.ReturnStmt); !ok || len(rs.Results) != 1 {
							okShape = false
						} else if id, ok := rs.Results[0].(*ast.Ident); !ok || id.Name != "true" {
							okShape = false
						}
					case *ast.ReturnStmt:
						if len(b.Results) == 1 {
							cond = b.Results[0]
						}
					}
					if cond == nil {
						okShape = false
						continue
					}
					var walk func(e ast.Expr)
					walk = func(e ast.Expr) {
						switch t := e.(type) {
						case *ast.BinaryExpr:
							if t.Op == token.LOR {
								walk(t.X)
								walk(t.Y)
								return
							}
							if t.Op == token.EQL {
								if id, ok := t.X.(*ast.Ident); ok && id.Name == "pLower" {
									if s, ok := x.constStr(t.Y); ok {
										v.exact = append(v.exact, s)
										return
									}
								}
							}
							okShape = false
						case *ast.CallExpr:
							if se, ok := t.Fun.(*ast.SelectorExpr); ok && se.Sel.Name == "HasPrefix" && len(t.Args) == 2 {
								if id, ok := t.Args[0].(*ast.Ident); ok && id.Name == "pLower" {
									if s, ok := x.constStr(t.Args[1]); ok {
										v.prefixes = append(v.prefixes, s)
										return
									}
								}
							}
							okShape = false
						case *ast.ParenExpr:
							walk(t.X)
						default:
							okShape = false
						}
					}
					walk(cond)
					variants = append(variants, v)
				}
			}
		}
		x.Assert("platform:checkPlatformVariant-shape", okShape && len(variants) > 0,
			"expected `switch current { case <const>: if pLower == lit || ... || strings.HasPrefix(pLower, lit) { return true } }`")
		var sb strings.Builder
		sb.WriteString("namespace Wtf.Gen.Platform\n\n/-- keys of database.crossPlatformTools -/\ndef crossPlatformTools : List String := ")
		sb.WriteString(leanStrList(tools))
		sb.WriteString("\n\n/-- checkPlatformVariant: (host platform, exact aliases, prefixes) -/\ndef variants : List (String × List String × List String) := [\n")
		for i, v := range variants {
			fmt.Fprintf(&sb, "  (%s, %s, %s)", leanStr(v.host), leanStrList(v.exact), leanStrList(v.prefixes))
			if i < len(variants)-1 {
				sb.WriteString(",")
			}
			sb.WriteString("\n")
		}
		sb.WriteString("]\n\nend Wtf.Gen.Platform\n")
		x.WriteLean("Platform", sb.String())
		x.Fact("platform.tools", tools)
	})

	// BM25F parameters: defaultParams() composite literal ----------------------------------------
	register("c_bm25", func(x *X) {
		fd := x.Func("internal/database", "defaultParams")
		if !x.Assert("bm25:defaultParams", fd != nil, "defaultParams not found") {
			return
		}
		vals := map[string]string{}
		var walkLit func(prefix string, cl *ast.CompositeLit)
		walkLit = func(prefix string, cl *ast.CompositeLit) {
			for _, e := range cl.Elts {
				kv, ok := e.(*ast.KeyValueExpr)
				if !ok {
					continue
				}
				k := kv.Key.(*ast.Ident).Name
				if sub, ok := kv.Value.(*ast.CompositeLit); ok {
					walkLit(prefix+k+"_", sub)
				} else if q, ok := numLitQ(kv.Value); ok {
					vals[prefix+k] = q
				}
			}
		}
		ast.Inspect(fd.Body, func(n ast.Node) bool {
			if rs, ok := n.(*ast.ReturnStmt); ok && len(rs.Results) == 1 {
				if cl, ok := rs.Results[0].(*ast.CompositeLit); ok {
					walkLit("", cl)
				}
			}
			return true
		})
		want := []string{"k1", "b_cmd", "b_desc", "b_keys", "b_tags", "w_cmd", "w_desc", "w_keys", "w_tags", "minIDF"}
		ok := true
		for _, w := range want {
			if _, has := vals[w]; !has {
				ok = false
			}
		}
		if !x.Assert("bm25:params-literal", ok, "expected bm25fParams{k1, b:{cmd,desc,keys,tags}, w:{...}, minIDF} literal; got %v", vals) {
			return
		}
		var sb strings.Builder
		sb.WriteString("import WtfModel.Basic.Q\nnamespace Wtf.Gen.Bm25\n\n")
		for _, w := range want {
			fmt.Fprintf(&sb, "def %s : Wtf.Q := %s\n", w, vals[w])
		}
		sb.WriteString("\nend Wtf.Gen.Bm25\n")
		x.WriteLean("Bm25", sb.String())
		x.Fact("bm25", vals)
	})
}
