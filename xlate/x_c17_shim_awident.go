package main

import "go/ast"

// SHIM (C17 worktree only): x_flags.go (taken unchanged from b-c09c08) uses awIdent, which that branch
// defines in x_atomic.go.  Delete this file when merging with b-c09c08 (duplicate definition otherwise).
func awIdent(e ast.Expr) string {
	if id, ok := e.(*ast.Ident); ok {
		return id.Name
	}
	return ""
}
