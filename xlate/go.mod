module wtfxlate

go 1.25.5
