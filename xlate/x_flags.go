package main

import (
	"fmt"
	"go/ast"
	"go/token"
	"sort"
	"strconv"
	"strings"
)

// Flags (C08, C17): the cobra command tree of internal/cli with every flag registration.
//
// For every package-level `var X = &cobra.Command{...}`:
//   - Use (first word), parent (from `P.AddCommand(X, ...)`),
//   - flags registered through `X.Flags().<M>(...)` (local) and `X.PersistentFlags().<M>(...)` (persistent),
//     M in {Bool, BoolP, String, StringP, Int, IntP, StringSlice, StringSliceP, ...} and their Var/VarP forms:
//     name, shorthand ("" when none), value kind,
//   - the flags the command's handler reads: `cmd.Flags().Get<Kind>("name")` anywhere inside the literal.
//
// Emits Gen/Flags.lean (self-contained: structures + data) and facts "flags.commands".
type xFlag struct {
	Name  string `json:"name"`
	Short string `json:"short"`
	Kind  string `json:"kind"`
}

type xCommand struct {
	Var        string     `json:"var"`
	Use        string     `json:"use"`
	Parent     string     `json:"parent"`
	Local      []xFlag    `json:"local"`
	Persistent []xFlag    `json:"persistent"`
	Reads      [][]string `json:"reads"`
	HasRun     bool       `json:"has_run"`
}

var flagKinds = map[string]string{
	"Bool": "bool", "String": "string", "Int": "int", "Int64": "int64", "Uint": "uint", "Float64": "float64",
	"StringSlice": "stringSlice", "StringArray": "stringArray", "IntSlice": "intSlice", "Duration": "duration", "Count": "count",
	"StringToString": "stringToString",
}

// parseFlagMethod: "StringSliceP" -> (kind, hasShorthand, isVar, ok)
func parseFlagMethod(m string) (kind string, short, isVar, ok bool) {
	base := m
	if strings.HasSuffix(base, "P") && base != "P" {
		short = true
		base = strings.TrimSuffix(base, "P")
	}
	if strings.HasSuffix(base, "Var") {
		isVar = true
		base = strings.TrimSuffix(base, "Var")
	}
	k, ok := flagKinds[base]
	return k, short, isVar, ok
}

func flStrLit(e ast.Expr) (string, bool) {
	if bl, ok := e.(*ast.BasicLit); ok && bl.Kind == token.STRING {
		s, err := strconv.Unquote(bl.Value)
		return s, err == nil
	}
	return "", false
}

func init() {
	register("flags", func(x *X) {
		files := x.Pkg("internal/cli")
		names := []string{}
		for n := range files {
			names = append(names, n)
		}
		sort.Strings(names)
		cmds := map[string]*xCommand{}
		order := []string{}
		problems := []string{}
		// 1. command variables
		for _, n := range names {
			for _, d := range files[n].Decls {
				gd, ok := d.(*ast.GenDecl)
				if !ok || gd.Tok != token.VAR {
					continue
				}
				for _, sp := range gd.Specs {
					vs := sp.(*ast.ValueSpec)
					for i, nm := range vs.Names {
						if i >= len(vs.Values) {
							continue
						}
						ue, ok := vs.Values[i].(*ast.UnaryExpr)
						if !ok || ue.Op != token.AND {
							continue
						}
						cl, ok := ue.X.(*ast.CompositeLit)
						if !ok {
							continue
						}
						se, ok := cl.Type.(*ast.SelectorExpr)
						if !ok || awIdent(se.X) != "cobra" || se.Sel.Name != "Command" {
							continue
						}
						c := &xCommand{Var: nm.Name, Reads: [][]string{}, Local: []xFlag{}, Persistent: []xFlag{}}
						for _, el := range cl.Elts {
							kv, ok := el.(*ast.KeyValueExpr)
							if !ok {
								continue
							}
							switch awIdent(kv.Key) {
							case "Use":
								if s, ok := flStrLit(kv.Value); ok {
									c.Use = strings.Fields(s + " ")[0]
								}
							case "Run", "RunE":
								c.HasRun = true
							}
						}
						// flags read by the handler
						seen := map[string]bool{}
						ast.Inspect(cl, func(nd ast.Node) bool {
							ce, ok := nd.(*ast.CallExpr)
							if !ok {
								return true
							}
							se, ok := ce.Fun.(*ast.SelectorExpr)
							if !ok || !strings.HasPrefix(se.Sel.Name, "Get") || len(ce.Args) != 1 {
								return true
							}
							inner, ok := se.X.(*ast.CallExpr)
							if !ok {
								return true
							}
							ise, ok := inner.Fun.(*ast.SelectorExpr)
							if !ok || (ise.Sel.Name != "Flags" && ise.Sel.Name != "PersistentFlags") {
								return true
							}
							k, ok := flagKinds[strings.TrimPrefix(se.Sel.Name, "Get")]
							nmv, ok2 := flStrLit(ce.Args[0])
							if !ok || !ok2 {
								problems = append(problems, fmt.Sprintf("%s: unrecognised flag read %s", x.Fset.Position(ce.Pos()), se.Sel.Name))
								return true
							}
							if !seen[nmv+"/"+k] {
								seen[nmv+"/"+k] = true
								c.Reads = append(c.Reads, []string{nmv, k})
							}
							return true
						})
						cmds[nm.Name] = c
						order = append(order, nm.Name)
					}
				}
			}
		}
		x.Assert("flags:commands-found", len(cmds) > 0, "no `var X = &cobra.Command{...}` found in internal/cli")
		// 2. registrations and AddCommand, in every function body of the package
		nreg := 0
		for _, n := range names {
			ast.Inspect(files[n], func(nd ast.Node) bool {
				ce, ok := nd.(*ast.CallExpr)
				if !ok {
					return true
				}
				se, ok := ce.Fun.(*ast.SelectorExpr)
				if !ok {
					return true
				}
				// P.AddCommand(X, ...)
				if se.Sel.Name == "AddCommand" {
					p := awIdent(se.X)
					if _, ok := cmds[p]; ok {
						for _, a := range ce.Args {
							if c, ok := cmds[awIdent(a)]; ok {
								if c.Parent != "" && c.Parent != p {
									problems = append(problems, fmt.Sprintf("%s: command %s added to two parents", x.Fset.Position(ce.Pos()), c.Var))
								}
								c.Parent = p
							}
						}
					}
					return true
				}
				// X.Flags().M(...) / X.PersistentFlags().M(...)
				inner, ok := se.X.(*ast.CallExpr)
				if !ok {
					return true
				}
				ise, ok := inner.Fun.(*ast.SelectorExpr)
				if !ok || (ise.Sel.Name != "Flags" && ise.Sel.Name != "PersistentFlags" && ise.Sel.Name != "LocalFlags") {
					return true
				}
				c, ok := cmds[awIdent(ise.X)]
				if !ok {
					return true // `cmd.Flags().GetX(..)` inside a handler, or a local command (NewRootCommand)
				}
				if strings.HasPrefix(se.Sel.Name, "Get") || se.Sel.Name == "Lookup" || se.Sel.Name == "Changed" || se.Sel.Name == "Set" {
					return true
				}
				if se.Sel.Name == "MarkHidden" || se.Sel.Name == "MarkDeprecated" || se.Sel.Name == "SortFlags" {
					return true
				}
				kind, short, isVar, ok := parseFlagMethod(se.Sel.Name)
				if !ok {
					problems = append(problems, fmt.Sprintf("%s: unrecognised flag registration method %s", x.Fset.Position(ce.Pos()), se.Sel.Name))
					return true
				}
				args := ce.Args
				if isVar {
					if len(args) == 0 {
						problems = append(problems, fmt.Sprintf("%s: %s without arguments", x.Fset.Position(ce.Pos()), se.Sel.Name))
						return true
					}
					args = args[1:]
				}
				need := 1
				if short {
					need = 2
				}
				if len(args) < need {
					problems = append(problems, fmt.Sprintf("%s: %s with too few arguments", x.Fset.Position(ce.Pos()), se.Sel.Name))
					return true
				}
				nmv, ok1 := flStrLit(args[0])
				sh, ok2 := "", true
				if short {
					sh, ok2 = flStrLit(args[1])
				}
				if !ok1 || !ok2 {
					problems = append(problems, fmt.Sprintf("%s: flag name / shorthand of %s is not a string literal", x.Fset.Position(ce.Pos()), se.Sel.Name))
					return true
				}
				f := xFlag{nmv, sh, kind}
				if ise.Sel.Name == "PersistentFlags" {
					c.Persistent = append(c.Persistent, f)
				} else {
					c.Local = append(c.Local, f)
				}
				nreg++
				return true
			})
		}
		x.Assert("flags:registrations", len(problems) == 0 && nreg > 0, "%d registrations; problems: %s", nreg, strings.Join(problems, "; "))
		roots := 0
		for _, v := range order {
			if cmds[v].Parent == "" {
				roots++
			}
		}
		x.Assert("flags:single-root", roots == 1, "expected exactly one command without a parent, found %d", roots)

		var sb strings.Builder
		sb.WriteString("namespace Wtf.Gen.Flags\n\n")
		sb.WriteString("structure Flag where\n  name : String\n  short : String   -- \"\" when the flag has no shorthand\n  kind : String\nderiving DecidableEq, Repr\n\n")
		sb.WriteString("structure Command where\n  var : String\n  use : String\n  parent : String  -- \"\" for the root command\n  localFlags : List Flag\n  persistentFlags : List Flag\n  reads : List (String × String)  -- (flag name, kind) fetched by the handler\n  hasRun : Bool\nderiving DecidableEq, Repr\n\n")
		fl := func(fs []xFlag) string {
			q := []string{}
			for _, f := range fs {
				q = append(q, fmt.Sprintf("⟨%s, %s, %s⟩", leanStr(f.Name), leanStr(f.Short), leanStr(f.Kind)))
			}
			return "[" + strings.Join(q, ", ") + "]"
		}
		out := []*xCommand{}
		sb.WriteString("def commands : List Command := [")
		for i, v := range order {
			c := cmds[v]
			out = append(out, c)
			rd := []string{}
			for _, r := range c.Reads {
				rd = append(rd, fmt.Sprintf("(%s, %s)", leanStr(r[0]), leanStr(r[1])))
			}
			if i > 0 {
				sb.WriteString(",")
			}
			fmt.Fprintf(&sb, "\n  { var := %s, use := %s, parent := %s,\n    localFlags := %s,\n    persistentFlags := %s,\n    reads := [%s], hasRun := %v }",
				leanStr(c.Var), leanStr(c.Use), leanStr(c.Parent), fl(c.Local), fl(c.Persistent), strings.Join(rd, ", "), c.HasRun)
		}
		sb.WriteString(" ]\n\nend Wtf.Gen.Flags\n")
		x.WriteLean("Flags", sb.String())
		x.Fact("flags.commands", out)
	})
}
