package main

import (
	"fmt"
	"go/ast"
	"go/printer"
	"go/token"
	"go/types"
	"reflect"
	"regexp"
	"sort"
	"strings"
)

// CacheKey (property C05): everything the cache-layer model and its theorems take from the source.
//
//	optionFields            fields of database.SearchOptions (name, Go type)
//	keyFields               fields of cache.SearchOptions (name, Go type, json tag, omitempty)
//	convCached/convMonitored  per conversion literal: cache field -> option field copied into it
//	engineReads             option fields selected (options.X) in any function of package database
//	                        reachable (by name) from SearchUniversal
//	engineNormalisesQuery   SearchUniversal replaces `query` by ToLower(TrimSpace(query)) before any use
//	keyNormalisesQuery      generateCacheKey uses `query` only through ToLower(TrimSpace(query))
//	updateInvalidates       UpdateDatabase clears the LRU (call chain down to LRUCache.Clear) after replacing Commands
//	putMatchesGet           Put is called with the very (query, cacheOptions) Get was asked with, and stores the
//	                        engine's answer for the very (query, options) of the request
//	fallbackMode            what is hashed when json.Marshal fails: the key struct in Go syntax (%#v), every field
//	putOnlyNonEmpty         ... and only under len(results) > 0
//	monitoredDelegates      the monitored search does one extra Get and returns the cached search's answer
//
// Shape assertions (x.Assert) say "the code still has a form this extractor understands"; the *content*
// (which fields, whether the query is normalised ...) is emitted as facts and judged by Lean theorems.
const (
	c05DbPkg    = "internal/database"
	c05CachePkg = "internal/cache"
)

var c05KnownOptTypes = map[string]bool{"int": true, "bool": true, "float64": true, "string": true, "[]string": true, "map[string]float64": true}

type c05CkSite struct {
	x    *X
	site string
	bad  []string
}

func (s *c05CkSite) fail(format string, a ...interface{}) {
	s.bad = append(s.bad, fmt.Sprintf(format, a...))
}
func (s *c05CkSite) done() bool {
	s.x.Assert(s.site, len(s.bad) == 0, "%s", strings.Join(s.bad, "; "))
	return len(s.bad) == 0
}

func (x *X) c05PosOf(n ast.Node) string {
	p := x.Fset.Position(n.Pos())
	f := p.Filename
	if i := strings.Index(f, "internal/"); i >= 0 {
		f = f[i:]
	}
	return fmt.Sprintf("%s:%d", f, p.Line)
}

func c05StructType(x *X, rel, name string) *ast.StructType {
	for _, f := range x.Pkg(rel) {
		for _, d := range f.Decls {
			gd, ok := d.(*ast.GenDecl)
			if !ok || gd.Tok != token.TYPE {
				continue
			}
			for _, sp := range gd.Specs {
				ts := sp.(*ast.TypeSpec)
				if ts.Name.Name == name {
					if st, ok := ts.Type.(*ast.StructType); ok {
						return st
					}
				}
			}
		}
	}
	return nil
}

// c05Method finds a c05Method by receiver type name (pointer or value) and name.
func c05Method(x *X, rel, recv, name string) *ast.FuncDecl {
	for _, f := range x.Pkg(rel) {
		for _, d := range f.Decls {
			fd, ok := d.(*ast.FuncDecl)
			if !ok || fd.Name.Name != name || fd.Recv == nil || len(fd.Recv.List) != 1 {
				continue
			}
			t := fd.Recv.List[0].Type
			if st, ok := t.(*ast.StarExpr); ok {
				t = st.X
			}
			if id, ok := t.(*ast.Ident); ok && id.Name == recv {
				return fd
			}
		}
	}
	return nil
}

func c05ExprStr(e ast.Expr) string { return types.ExprString(e) }

var c05WsRun = regexp.MustCompile(`\s+`)

// c05NodeStr prints a node as source with every white-space run collapsed to one blank.
func c05NodeStr(x *X, n ast.Node) string {
	var sb strings.Builder
	if err := printer.Fprint(&sb, x.Fset, n); err != nil {
		return ""
	}
	return c05WsRun.ReplaceAllString(sb.String(), " ")
}

// paramNamed returns the name of the (single) parameter whose type prints as typ, "" if none or several.
func c05ParamOfType(fd *ast.FuncDecl, typ string) string {
	name, n := "", 0
	for _, p := range fd.Type.Params.List {
		if c05ExprStr(p.Type) == typ {
			for _, id := range p.Names {
				name = id.Name
				n++
			}
		}
	}
	if n != 1 {
		return ""
	}
	return name
}

// assignedIdents: every identifier that is (re)assigned, inc/dec'ed, address-taken or has a field assigned in body.
func c05MutatedIdents(body ast.Node) map[string]bool {
	out := map[string]bool{}
	root := func(e ast.Expr) string {
		for {
			switch t := e.(type) {
			case *ast.Ident:
				return t.Name
			case *ast.SelectorExpr:
				e = t.X
			case *ast.IndexExpr:
				e = t.X
			case *ast.ParenExpr:
				e = t.X
			case *ast.StarExpr:
				e = t.X
			default:
				return ""
			}
		}
	}
	ast.Inspect(body, func(n ast.Node) bool {
		switch s := n.(type) {
		case *ast.AssignStmt:
			if s.Tok != token.DEFINE {
				for _, l := range s.Lhs {
					if r := root(l); r != "" {
						out[r] = true
					}
				}
			}
		case *ast.IncDecStmt:
			if r := root(s.X); r != "" {
				out[r] = true
			}
		case *ast.UnaryExpr:
			if s.Op == token.AND {
				if r := root(s.X); r != "" {
					out[r] = true
				}
			}
		case *ast.RangeStmt:
			if s.Tok == token.ASSIGN {
				for _, e := range []ast.Expr{s.Key, s.Value} {
					if e != nil {
						if r := root(e); r != "" {
							out[r] = true
						}
					}
				}
			}
		}
		return true
	})
	return out
}

func c05DefineCount(body ast.Node, name string) int {
	n := 0
	ast.Inspect(body, func(nd ast.Node) bool {
		switch s := nd.(type) {
		case *ast.AssignStmt:
			if s.Tok == token.DEFINE {
				for _, l := range s.Lhs {
					if id, ok := l.(*ast.Ident); ok && id.Name == name {
						n++
					}
				}
			}
		case *ast.ValueSpec:
			for _, id := range s.Names {
				if id.Name == name {
					n++
				}
			}
		}
		return true
	})
	return n
}

func c05IsNormExpr(e ast.Expr, arg string) bool {
	return c05ExprStr(e) == "strings.ToLower(strings.TrimSpace("+arg+"))"
}

// c05IsCall reports whether e is the call <recvExpr>.<name>(args...) with the given printed receiver and args.
func c05IsCall(e ast.Expr, fun string, args ...string) bool {
	ce, ok := e.(*ast.CallExpr)
	if !ok || c05ExprStr(ce.Fun) != fun || len(ce.Args) != len(args) || ce.Ellipsis != token.NoPos {
		return false
	}
	for i, a := range args {
		if c05ExprStr(ce.Args[i]) != a {
			return false
		}
	}
	return true
}

// topLevelCallAfter: body has, as an unconditional top-level statement, the expression statement `call()`;
// returns its index or -1.
func c05TopLevelCall(body *ast.BlockStmt, fun string) int {
	for i, st := range body.List {
		if es, ok := st.(*ast.ExprStmt); ok && c05IsCall(es.X, fun) {
			return i
		}
	}
	return -1
}

func c05LeanPairs(ps [][2]string) string {
	q := make([]string, len(ps))
	for i, p := range ps {
		q[i] = "(" + leanStr(p[0]) + ", " + leanStr(p[1]) + ")"
	}
	return "[" + strings.Join(q, ", ") + "]"
}

func c05LeanBool(b bool) string {
	if b {
		return "true"
	}
	return "false"
}

func init() {
	register("cachekey", func(x *X) {
		facts := map[string]interface{}{}

		// ---- (1) fields of database.SearchOptions -------------------------------------------------
		var optionFields [][2]string
		{
			s := &c05CkSite{x: x, site: "cachekey:optionFields"}
			st := c05StructType(x, c05DbPkg, "SearchOptions")
			if st == nil {
				s.fail("type database.SearchOptions struct not found")
			} else {
				for _, f := range st.Fields.List {
					t := c05ExprStr(f.Type)
					if len(f.Names) == 0 {
						s.fail("embedded field %s in database.SearchOptions", t)
					}
					for _, n := range f.Names {
						optionFields = append(optionFields, [2]string{n.Name, t})
						if !c05KnownOptTypes[t] {
							s.fail("field %s has type %s, which the option model cannot represent", n.Name, t)
						}
					}
				}
				if len(optionFields) == 0 {
					s.fail("database.SearchOptions has no fields")
				}
			}
			s.done()
		}
		optField := map[string]string{}
		for _, f := range optionFields {
			optField[f[0]] = f[1]
		}

		// ---- (2) fields of cache.SearchOptions with their json tags --------------------------------
		type keyField struct {
			Name, Type, JSON string
			Omit             bool
		}
		var keyFields []keyField
		{
			s := &c05CkSite{x: x, site: "cachekey:keyFields"}
			st := c05StructType(x, c05CachePkg, "SearchOptions")
			if st == nil {
				s.fail("type cache.SearchOptions struct not found")
			} else {
				seen := map[string]bool{}
				for _, f := range st.Fields.List {
					t := c05ExprStr(f.Type)
					if len(f.Names) == 0 {
						s.fail("embedded field %s in cache.SearchOptions", t)
					}
					tag := ""
					if f.Tag != nil {
						tag = reflect.StructTag(strings.Trim(f.Tag.Value, "`")).Get("json")
					}
					parts := strings.Split(tag, ",")
					name, omit := parts[0], false
					for _, p := range parts[1:] {
						switch p {
						case "omitempty":
							omit = true
						default:
							s.fail("json tag option %q is not modelled", p)
						}
					}
					for _, n := range f.Names {
						jn := name
						if jn == "" {
							jn = n.Name
						}
						if jn == "-" {
							s.fail("field %s is excluded from the JSON key (json:\"-\")", n.Name)
						}
						if !ast.IsExported(n.Name) {
							s.fail("field %s is unexported: encoding/json ignores it", n.Name)
						}
						if seen[strings.ToLower(jn)] {
							s.fail("json name %q used twice: encoding/json drops both fields", jn)
						}
						seen[strings.ToLower(jn)] = true
						if !c05KnownOptTypes[t] {
							s.fail("field %s has type %s, which the key model cannot represent", n.Name, t)
						}
						keyFields = append(keyFields, keyField{n.Name, t, jn, omit})
					}
				}
			}
			s.done()
		}
		keyField_ := map[string]keyField{}
		for _, k := range keyFields {
			keyField_[k.Name] = k
		}

		// ---- (3) the two conversion literals ---------------------------------------------------------
		conv := func(site string, fd *ast.FuncDecl) [][2]string {
			s := &c05CkSite{x: x, site: site}
			defer s.done()
			if fd == nil || fd.Body == nil {
				s.fail("function not found")
				return nil
			}
			opt := c05ParamOfType(fd, "SearchOptions")
			if opt == "" {
				s.fail("expected exactly one parameter of type SearchOptions")
				return nil
			}
			if c05MutatedIdents(fd.Body)[opt] || c05DefineCount(fd.Body, opt) != 0 {
				s.fail("parameter %s is modified or shadowed in the function", opt)
			}
			var lits []*ast.CompositeLit
			ast.Inspect(fd.Body, func(n ast.Node) bool {
				if cl, ok := n.(*ast.CompositeLit); ok && cl.Type != nil && c05ExprStr(cl.Type) == "cache.SearchOptions" {
					lits = append(lits, cl)
				}
				return true
			})
			if len(lits) != 1 {
				s.fail("expected exactly one cache.SearchOptions{...} literal, found %d", len(lits))
				return nil
			}
			var out [][2]string
			seen := map[string]bool{}
			for _, e := range lits[0].Elts {
				kv, ok := e.(*ast.KeyValueExpr)
				if !ok {
					s.fail("%s: positional element in the conversion literal", x.c05PosOf(e))
					continue
				}
				k, ok := kv.Key.(*ast.Ident)
				if !ok {
					s.fail("%s: key is not a field name", x.c05PosOf(kv))
					continue
				}
				kf, isKey := keyField_[k.Name]
				if !isKey {
					s.fail("%s: %s is not a field of cache.SearchOptions", x.c05PosOf(kv), k.Name)
				}
				if seen[k.Name] {
					s.fail("%s: field %s given twice", x.c05PosOf(kv), k.Name)
				}
				seen[k.Name] = true
				se, ok := kv.Value.(*ast.SelectorExpr)
				var id *ast.Ident
				ok2 := false
				if ok {
					id, ok2 = se.X.(*ast.Ident)
				}
				if !ok || !ok2 || id.Name != opt {
					s.fail("%s: value of %s is %s, not a plain selector on the parameter %s", x.c05PosOf(kv), k.Name, c05ExprStr(kv.Value), opt)
					continue
				}
				ot, isOpt := optField[se.Sel.Name]
				if !isOpt {
					s.fail("%s: %s.%s is not a field of database.SearchOptions", x.c05PosOf(kv), opt, se.Sel.Name)
				} else if isKey && ot != kf.Type {
					s.fail("%s: %s (%s) copied into %s (%s): type changes are not modelled", x.c05PosOf(kv), se.Sel.Name, ot, k.Name, kf.Type)
				}
				out = append(out, [2]string{k.Name, se.Sel.Name})
			}
			return out
		}
		cachedFn := c05Method(x, c05DbPkg, "CachedDatabase", "SearchWithOptionsAndCache")
		convCached := conv("cachekey:conv:SearchWithOptionsAndCache", cachedFn)
		convFn := c05Method(x, c05DbPkg, "MonitoredDatabase", "convertToCacheOptions")
		convMonitored := conv("cachekey:conv:convertToCacheOptions", convFn)
		{
			// convertToCacheOptions must consist of `return <literal>` only
			s := &c05CkSite{x: x, site: "cachekey:convertToCacheOptions:body"}
			if convFn == nil || convFn.Body == nil || len(convFn.Body.List) != 1 {
				s.fail("expected a single return statement")
			} else if rs, ok := convFn.Body.List[0].(*ast.ReturnStmt); !ok || len(rs.Results) != 1 {
				s.fail("expected `return cache.SearchOptions{...}`")
			} else if _, ok := rs.Results[0].(*ast.CompositeLit); !ok {
				s.fail("expected `return cache.SearchOptions{...}`")
			}
			s.done()
		}

		// ---- (4) option fields read by the engine -----------------------------------------------------
		var engineReads []string
		{
			s := &c05CkSite{x: x, site: "cachekey:reads"}
			byName := map[string][]*ast.FuncDecl{}
			imports := map[string]bool{}
			for _, f := range x.Pkg(c05DbPkg) {
				for _, im := range f.Imports {
					p := strings.Trim(im.Path.Value, "\"")
					n := p[strings.LastIndex(p, "/")+1:]
					if im.Name != nil {
						n = im.Name.Name
					}
					imports[n] = true
				}
				for _, d := range f.Decls {
					if fd, ok := d.(*ast.FuncDecl); ok && fd.Body != nil {
						byName[fd.Name.Name] = append(byName[fd.Name.Name], fd)
					}
				}
			}
			// *SearchOptions anywhere in the package would defeat the by-value analysis below
			for _, f := range x.Pkg(c05DbPkg) {
				ast.Inspect(f, func(n ast.Node) bool {
					if st, ok := n.(*ast.StarExpr); ok {
						if id, ok := st.X.(*ast.Ident); ok && id.Name == "SearchOptions" {
							s.fail("%s: *SearchOptions is used; pointer flow is not analysed", x.c05PosOf(n))
						}
					}
					return true
				})
			}
			root := c05Method(x, c05DbPkg, "Database", "SearchUniversal")
			if root == nil {
				s.fail("(*Database).SearchUniversal not found")
			}
			reach := map[*ast.FuncDecl]bool{}
			var stack []*ast.FuncDecl
			if root != nil {
				stack = append(stack, root)
			}
			for len(stack) > 0 {
				fd := stack[len(stack)-1]
				stack = stack[:len(stack)-1]
				if reach[fd] {
					continue
				}
				reach[fd] = true
				// conservative: any identifier that names a function of the package counts as a call
				ast.Inspect(fd.Body, func(n ast.Node) bool {
					if id, ok := n.(*ast.Ident); ok {
						stack = append(stack, byName[id.Name]...)
					}
					return true
				})
			}
			reads := map[string]bool{}
			var reachNames []string
			for fd := range reach {
				reachNames = append(reachNames, fd.Name.Name)
				// identifiers holding a SearchOptions value in this function
				optVars := map[string]bool{}
				for _, p := range fd.Type.Params.List {
					if c05ExprStr(p.Type) == "SearchOptions" {
						for _, id := range p.Names {
							optVars[id.Name] = true
						}
					}
				}
				isOptExpr := func(e ast.Expr) bool {
					switch t := e.(type) {
					case *ast.Ident:
						return optVars[t.Name]
					case *ast.CompositeLit:
						return t.Type != nil && c05ExprStr(t.Type) == "SearchOptions"
					}
					return false
				}
				for pass := 0; pass < 3; pass++ {
					ast.Inspect(fd.Body, func(n ast.Node) bool {
						switch a := n.(type) {
						case *ast.AssignStmt:
							if len(a.Lhs) == len(a.Rhs) {
								for i := range a.Lhs {
									if id, ok := a.Lhs[i].(*ast.Ident); ok && isOptExpr(a.Rhs[i]) {
										optVars[id.Name] = true
									}
								}
							}
						case *ast.ValueSpec:
							isOpt := a.Type != nil && c05ExprStr(a.Type) == "SearchOptions"
							for i, id := range a.Names {
								if isOpt || (i < len(a.Values) && isOptExpr(a.Values[i])) {
									optVars[id.Name] = true
								}
							}
						case *ast.FuncLit:
							for _, p := range a.Type.Params.List {
								if c05ExprStr(p.Type) == "SearchOptions" {
									for _, id := range p.Names {
										optVars[id.Name] = true
									}
								}
							}
						}
						return true
					})
				}
				if len(optVars) == 0 {
					continue
				}
				// classify every use of such an identifier
				var stackN []ast.Node
				ast.Inspect(fd.Body, func(n ast.Node) bool {
					if n == nil {
						stackN = stackN[:len(stackN)-1]
						return true
					}
					stackN = append(stackN, n)
					id, ok := n.(*ast.Ident)
					if !ok || !optVars[id.Name] || len(stackN) < 2 {
						return true
					}
					par := stackN[len(stackN)-2]
					switch p := par.(type) {
					case *ast.SelectorExpr:
						if p.X == id {
							reads[p.Sel.Name] = true
							if _, ok := optField[p.Sel.Name]; !ok {
								s.fail("%s: %s.%s is not a field of SearchOptions (shadowed identifier?)", x.c05PosOf(p), id.Name, p.Sel.Name)
							}
							return true
						}
						// id is the Sel of some other selector (a field named like the variable): not a use
						return true
					case *ast.CallExpr:
						if p.Fun == id {
							return true
						}
						// passed whole to a callee: must be a function of this package (then it is reachable and analysed)
						callee, foreign := "", false
						switch f := p.Fun.(type) {
						case *ast.Ident:
							callee = f.Name
						case *ast.SelectorExpr:
							callee = f.Sel.Name
							if r, ok := f.X.(*ast.Ident); ok && imports[r.Name] {
								foreign = true
							}
						}
						if foreign || len(byName[callee]) == 0 {
							s.fail("%s: %s is passed whole to %s, which is not a function of package database", x.c05PosOf(p), id.Name, c05ExprStr(p.Fun))
							return true
						}
						argi := -1
						for i, a := range p.Args {
							if a == id {
								argi = i
							}
						}
						okParam := false
						for _, cd := range byName[callee] {
							k := 0
							for _, pl := range cd.Type.Params.List {
								nn := len(pl.Names)
								if nn == 0 {
									nn = 1
								}
								if argi >= k && argi < k+nn && c05ExprStr(pl.Type) == "SearchOptions" {
									okParam = true
								}
								k += nn
							}
						}
						if !okParam {
							s.fail("%s: %s is passed to %s in a position that is not a SearchOptions parameter", x.c05PosOf(p), id.Name, callee)
						}
						return true
					case *ast.AssignStmt:
						for i, l := range p.Lhs {
							if l == id {
								return true // (re)definition of the variable itself
							}
							if i < len(p.Rhs) && p.Rhs[i] == id {
								if _, ok := l.(*ast.Ident); ok {
									return true // alias, tracked above
								}
							}
						}
						for _, r := range p.Rhs {
							if r == id {
								s.fail("%s: %s is stored into %s: flow not analysed", x.c05PosOf(p), id.Name, c05ExprStr(p.Lhs[0]))
							}
						}
						return true
					case *ast.ValueSpec, *ast.Field:
						return true
					default:
						s.fail("%s: unrecognised use of %s (%T): the reads analysis cannot follow it", x.c05PosOf(par), id.Name, par)
					}
					return true
				})
			}
			for f := range reads {
				engineReads = append(engineReads, f)
			}
			sort.Strings(engineReads)
			sort.Strings(reachNames)
			facts["reachableFromSearchUniversal"] = reachNames
			if root != nil && len(engineReads) == 0 {
				s.fail("no option field is read anywhere under SearchUniversal: analysis is certainly wrong")
			}
			s.done()
		}

		// ---- (5) query normalisation: engine and key -------------------------------------------------
		engineNorm, keyNorm := false, false
		{
			s := &c05CkSite{x: x, site: "cachekey:SearchUniversal:query"}
			fd := c05Method(x, c05DbPkg, "Database", "SearchUniversal")
			if fd == nil {
				s.fail("(*Database).SearchUniversal not found")
			} else {
				q := c05ParamOfType(fd, "string")
				if q == "" {
					s.fail("expected exactly one string parameter (the query)")
				} else {
					// first top-level statement that mentions q must be `q = strings.ToLower(strings.TrimSpace(q))`
					for _, st := range fd.Body.List {
						mentions := false
						ast.Inspect(st, func(n ast.Node) bool {
							if id, ok := n.(*ast.Ident); ok && id.Name == q {
								mentions = true
							}
							return true
						})
						if !mentions {
							continue
						}
						if as, ok := st.(*ast.AssignStmt); ok && as.Tok == token.ASSIGN && len(as.Lhs) == 1 && len(as.Rhs) == 1 &&
							c05ExprStr(as.Lhs[0]) == q && c05IsNormExpr(as.Rhs[0], q) {
							engineNorm = true
						} else {
							facts["engineFirstQueryUse"] = x.c05PosOf(st)
						}
						break
					}
				}
			}
			s.done()
		}
		fallbackMode := "unrecognised"
		{
			s := &c05CkSite{x: x, site: "cachekey:generateCacheKey"}
			fd := c05Method(x, c05CachePkg, "SearchCache", "generateCacheKey")
			if fd == nil {
				s.fail("(*SearchCache).generateCacheKey not found")
			} else {
				q, o := c05ParamOfType(fd, "string"), c05ParamOfType(fd, "SearchOptions")
				if q == "" || o == "" {
					s.fail("expected parameters (query string, options SearchOptions)")
				} else {
					// uses of the raw query: exactly one, inside `nq := strings.ToLower(strings.TrimSpace(query))`
					uses, nq := 0, ""
					ast.Inspect(fd.Body, func(n ast.Node) bool {
						if id, ok := n.(*ast.Ident); ok && id.Name == q {
							uses++
						}
						return true
					})
					for _, st := range fd.Body.List {
						if as, ok := st.(*ast.AssignStmt); ok && as.Tok == token.DEFINE && len(as.Lhs) == 1 && len(as.Rhs) == 1 && c05IsNormExpr(as.Rhs[0], q) {
							nq = c05ExprStr(as.Lhs[0])
						}
					}
					mut := c05MutatedIdents(fd.Body)
					keyNorm = uses == 1 && nq != "" && !mut[nq] && !mut[q]
					if mut[o] {
						s.fail("the options parameter is modified inside generateCacheKey")
					}
					// the rest of the shape the key model mirrors
					src := ""
					{
						var sb strings.Builder
						for _, st := range fd.Body.List {
							sb.WriteString(c05NodeStr(x, st))
							sb.WriteString("\n")
						}
						src = sb.String()
					}
					want := []string{
						"Query: " + nq,
						"Options: " + o,
						"json.Marshal(keyData)",
						"sha256.Sum256(jsonData)",
						`fmt.Sprintf("%s%x", sc.keyPrefix, hash)`,
					}
					for _, w := range want {
						if !strings.Contains(src, w) {
							s.fail("expected `%s` in generateCacheKey", w)
						}
					}
					// the Marshal-error fallback: the same struct in Go syntax (every field), hashed like the JSON text;
					// the function returns in exactly one place
					found := false
					for _, st := range fd.Body.List {
						is, ok := st.(*ast.IfStmt)
						if !ok || is.Init != nil || is.Else != nil || c05ExprStr(is.Cond) != "err != nil" || len(is.Body.List) != 1 {
							continue
						}
						as, ok := is.Body.List[0].(*ast.AssignStmt)
						if ok && as.Tok == token.ASSIGN && len(as.Lhs) == 1 && len(as.Rhs) == 1 && c05ExprStr(as.Lhs[0]) == "jsonData" &&
							c05ExprStr(as.Rhs[0]) == `[]byte(fmt.Sprintf("%#v", keyData))` {
							found = true
						}
					}
					if !found {
						s.fail("expected the Marshal-error fallback `if err != nil { jsonData = []byte(fmt.Sprintf(\"%%#v\", keyData)) }`; the key model mirrors it")
					}
					nret := 0
					ast.Inspect(fd.Body, func(n ast.Node) bool {
						if _, ok := n.(*ast.ReturnStmt); ok {
							nret++
						}
						return true
					})
					if nret != 1 {
						s.fail("expected exactly one return statement in generateCacheKey, found %d", nret)
					}
					if found && nret == 1 {
						fallbackMode = "gosyntax-all-fields"
					}
				}
			}
			s.done()
		}

		// ---- (6) UpdateDatabase invalidates ------------------------------------------------------------
		updateInvalidates := false
		{
			s := &c05CkSite{x: x, site: "cachekey:UpdateDatabase"}
			fd := c05Method(x, c05DbPkg, "CachedDatabase", "UpdateDatabase")
			if fd == nil || fd.Body == nil || fd.Recv == nil || len(fd.Recv.List[0].Names) != 1 {
				s.fail("(*CachedDatabase).UpdateDatabase not found")
			} else {
				r := fd.Recv.List[0].Names[0].Name
				assignAt := -1
				for i, st := range fd.Body.List {
					if as, ok := st.(*ast.AssignStmt); ok && len(as.Lhs) == 1 {
						l := c05ExprStr(as.Lhs[0])
						if l == r+".Database.Commands" || l == r+".Commands" {
							assignAt = i
						}
					}
				}
				if assignAt < 0 {
					s.fail("expected a top-level assignment to %s.Database.Commands", r)
				}
				callAt := c05TopLevelCall(fd.Body, r+".InvalidateCache")
				chain := callAt > assignAt && assignAt >= 0
				// InvalidateCache -> Manager.InvalidateAll -> SearchCache.Invalidate -> LRUCache.Clear
				links := []struct{ pkg, recv, name, call string }{
					{c05DbPkg, "CachedDatabase", "InvalidateCache", "%s.cacheManager.InvalidateAll"},
					{c05CachePkg, "Manager", "InvalidateAll", "%s.searchCache.Invalidate"},
					{c05CachePkg, "SearchCache", "Invalidate", "%s.cache.Clear"},
				}
				for _, l := range links {
					m := c05Method(x, l.pkg, l.recv, l.name)
					if m == nil || m.Body == nil || len(m.Recv.List[0].Names) != 1 {
						s.fail("(*%s).%s not found", l.recv, l.name)
						chain = false
						continue
					}
					if c05TopLevelCall(m.Body, fmt.Sprintf(l.call, m.Recv.List[0].Names[0].Name)) < 0 {
						chain = false
					}
				}
				updateInvalidates = chain
				// no other c05Method of the two wrappers replaces Commands
				for _, f := range x.Pkg(c05DbPkg) {
					for _, d := range f.Decls {
						m, ok := d.(*ast.FuncDecl)
						if !ok || m.Recv == nil || m.Body == nil || m == fd {
							continue
						}
						rt := strings.TrimPrefix(c05ExprStr(m.Recv.List[0].Type), "*")
						if rt != "CachedDatabase" && rt != "MonitoredDatabase" {
							continue
						}
						ast.Inspect(m.Body, func(n ast.Node) bool {
							if as, ok := n.(*ast.AssignStmt); ok {
								for _, l := range as.Lhs {
									if strings.HasSuffix(c05ExprStr(l), ".Commands") {
										s.fail("%s: %s.%s also assigns Commands; only UpdateDatabase is modelled as a replacement", x.c05PosOf(as), rt, m.Name.Name)
									}
								}
							}
							return true
						})
					}
				}
			}
			s.done()
		}

		// ---- (7) Get / Put discipline of the cached search; delegation of the monitored search -----------
		putMatchesGet, putOnlyNonEmpty, monitoredDelegates := false, false, false
		{
			s := &c05CkSite{x: x, site: "cachekey:get-put"}
			fd := cachedFn
			if fd == nil || fd.Body == nil {
				s.fail("SearchWithOptionsAndCache not found")
			} else {
				q, o := c05ParamOfType(fd, "string"), c05ParamOfType(fd, "SearchOptions")
				mut := c05MutatedIdents(fd.Body)
				var gets, puts, engines []*ast.CallExpr
				ast.Inspect(fd.Body, func(n ast.Node) bool {
					if ce, ok := n.(*ast.CallExpr); ok {
						if se, ok := ce.Fun.(*ast.SelectorExpr); ok {
							switch se.Sel.Name {
							case "Get":
								gets = append(gets, ce)
							case "Put":
								puts = append(puts, ce)
							case "SearchUniversal":
								engines = append(engines, ce)
							}
						}
					}
					return true
				})
				if q == "" || o == "" {
					s.fail("expected parameters (query string, options SearchOptions)")
				} else if len(gets) != 1 || len(puts) != 1 {
					s.fail("expected exactly one Get and one Put call, found %d and %d", len(gets), len(puts))
				} else {
					g, p := gets[0], puts[0]
					sameArgs := len(g.Args) == 2 && len(p.Args) == 3 &&
						c05ExprStr(g.Args[0]) == q && c05ExprStr(p.Args[0]) == q &&
						c05ExprStr(g.Args[1]) == c05ExprStr(p.Args[1]) && c05ExprStr(g.Fun.(*ast.SelectorExpr).X) == c05ExprStr(p.Fun.(*ast.SelectorExpr).X)
					co := ""
					if len(g.Args) == 2 {
						if id, ok := g.Args[1].(*ast.Ident); ok {
							co = id.Name
						}
					}
					// cacheOptions: defined once from the literal, never modified; query/options never modified
					stable := co != "" && c05DefineCount(fd.Body, co) == 1 && !mut[co] && !mut[q] && !mut[o] &&
						c05DefineCount(fd.Body, q) == 0 && c05DefineCount(fd.Body, o) == 0
					// what is stored: convertDBResults(results), results := <recv>.SearchUniversal(query, options), defined once
					stored := false
					resName := ""
					if len(p.Args) == 3 {
						if ce, ok := p.Args[2].(*ast.CallExpr); ok && c05ExprStr(ce.Fun) == "convertDBResults" && len(ce.Args) == 1 {
							resName = c05ExprStr(ce.Args[0])
						}
					}
					if resName != "" && c05DefineCount(fd.Body, resName) == 1 && !mut[resName] {
						ast.Inspect(fd.Body, func(n ast.Node) bool {
							if as, ok := n.(*ast.AssignStmt); ok && as.Tok == token.DEFINE && len(as.Lhs) == 1 && len(as.Rhs) == 1 && c05ExprStr(as.Lhs[0]) == resName {
								if ce, ok := as.Rhs[0].(*ast.CallExpr); ok && len(ce.Args) == 2 && c05ExprStr(ce.Args[0]) == q && c05ExprStr(ce.Args[1]) == o {
									if se, ok := ce.Fun.(*ast.SelectorExpr); ok && se.Sel.Name == "SearchUniversal" {
										stored = true
									}
								}
							}
							return true
						})
					}
					putMatchesGet = sameArgs && stable && stored
					// the Put sits directly inside `if len(results) > 0 { ... }` at top level, and the miss path returns results
					for i, st := range fd.Body.List {
						is, ok := st.(*ast.IfStmt)
						if !ok || is.Init != nil || is.Else != nil || c05ExprStr(is.Cond) != "len("+resName+") > 0" || len(is.Body.List) != 1 {
							continue
						}
						if es, ok := is.Body.List[0].(*ast.ExprStmt); ok && es.X == ast.Expr(p) {
							if i+1 < len(fd.Body.List) {
								if rs, ok := fd.Body.List[i+1].(*ast.ReturnStmt); ok && len(rs.Results) == 1 && c05ExprStr(rs.Results[0]) == resName {
									putOnlyNonEmpty = true
								}
							}
						}
					}
					// every SearchUniversal call in the function is on (query, options)
					for _, e := range engines {
						if len(e.Args) != 2 || c05ExprStr(e.Args[0]) != q || c05ExprStr(e.Args[1]) != o {
							s.fail("%s: SearchUniversal is called with other arguments than the request's (query, options)", x.c05PosOf(e))
						}
					}
					// hit path: `if cachedResults, found := searchCache.Get(...); found { return convertCacheResults(cachedResults) }`
					hitOK := false
					for _, st := range fd.Body.List {
						is, ok := st.(*ast.IfStmt)
						if !ok || is.Init == nil {
							continue
						}
						as, ok := is.Init.(*ast.AssignStmt)
						if !ok || len(as.Lhs) != 2 || len(as.Rhs) != 1 || as.Rhs[0] != ast.Expr(g) {
							continue
						}
						if c05ExprStr(is.Cond) == c05ExprStr(as.Lhs[1]) && len(is.Body.List) == 1 {
							if rs, ok := is.Body.List[0].(*ast.ReturnStmt); ok && len(rs.Results) == 1 &&
								c05IsCall(rs.Results[0], "convertCacheResults", c05ExprStr(as.Lhs[0])) {
								hitOK = true
							}
						}
					}
					if !hitOK {
						s.fail("expected `if r, found := searchCache.Get(...); found { return convertCacheResults(r) }`")
					}
					// disabled path: first `if !<recv>.cacheManager.IsEnabled() { return <recv>.SearchUniversal(query, options) }`
					disOK := false
					for _, st := range fd.Body.List {
						is, ok := st.(*ast.IfStmt)
						if ok && is.Init == nil && strings.HasSuffix(c05ExprStr(is.Cond), ".cacheManager.IsEnabled()") && strings.HasPrefix(c05ExprStr(is.Cond), "!") && len(is.Body.List) == 1 {
							if rs, ok := is.Body.List[0].(*ast.ReturnStmt); ok && len(rs.Results) == 1 {
								if ce, ok := rs.Results[0].(*ast.CallExpr); ok && len(ce.Args) == 2 && c05ExprStr(ce.Args[0]) == q && c05ExprStr(ce.Args[1]) == o && strings.HasSuffix(c05ExprStr(ce.Fun), ".SearchUniversal") {
									disOK = true
								}
							}
						}
					}
					if !disOK {
						s.fail("expected the disabled path `if !cdb.cacheManager.IsEnabled() { return cdb.SearchUniversal(query, options) }`")
					}
				}
			}
			// monitored search: one Get on convertToCacheOptions(options), then the cached search on (query, options)
			md := c05Method(x, c05DbPkg, "MonitoredDatabase", "SearchWithOptionsAndMonitoring")
			if md == nil || md.Body == nil {
				s.fail("SearchWithOptionsAndMonitoring not found")
			} else {
				q, o := c05ParamOfType(md, "string"), c05ParamOfType(md, "SearchOptions")
				r := md.Recv.List[0].Names[0].Name
				mut := c05MutatedIdents(md.Body)
				src := c05NodeStr(x, md.Body)
				nGet := strings.Count(src, ".Get(")
				okGet := strings.Contains(src, "cacheOptions := "+r+".convertToCacheOptions("+o+")") && strings.Contains(src, "searchCache.Get("+q+", cacheOptions)")
				okDel := strings.Contains(src, "results := "+r+".SearchWithOptionsAndCache("+q+", "+o+")")
				okRet := false
				if n := len(md.Body.List); n > 0 {
					if rs, ok := md.Body.List[n-1].(*ast.ReturnStmt); ok && len(rs.Results) == 1 && c05ExprStr(rs.Results[0]) == "results" {
						okRet = true
					}
				}
				monitoredDelegates = q != "" && o != "" && nGet == 1 && okGet && okDel && okRet && !mut[q] && !mut[o] && !mut["results"] && !mut["cacheOptions"]
			}
			// the two limit-only entry points delegate with SearchOptions{Limit: limit}
			for _, e := range []struct{ recv, name, want string }{
				{"CachedDatabase", "SearchWithCache", ".SearchWithOptionsAndCache(query, SearchOptions{Limit: limit})"},
				{"MonitoredDatabase", "SearchWithMonitoring", ".SearchWithCache(query, limit)"},
			} {
				m := c05Method(x, c05DbPkg, e.recv, e.name)
				if m == nil || m.Body == nil || !strings.Contains(c05NodeStr(x, m.Body), e.want) {
					s.fail("(*%s).%s no longer delegates through `%s`", e.recv, e.name, e.want)
				}
			}
			s.done()
		}

		// ---- SearchCache.Get / Put / Manager.Enable shapes the layer model mirrors -----------------------
		{
			s := &c05CkSite{x: x, site: "cachekey:SearchCache"}
			type w struct {
				recv, name string
				want       []string
			}
			for _, e := range []w{
				{"SearchCache", "Get", []string{"if !sc.enabled {", "key := sc.generateCacheKey(query, options)", "sc.cache.Get(key)"}},
				{"SearchCache", "Put", []string{"if !sc.enabled || len(results) == 0 {", "key := sc.generateCacheKey(query, options)", "copy(cachedResults, results)", "sc.cache.Put(key, cachedResults)"}},
				{"SearchCache", "CleanupExpired", []string{"return sc.cache.CleanupExpired()"}},
				{"Manager", "Enable", []string{"cm.enabled = enabled", "cm.searchCache.Enable(enabled)"}},
				{"Manager", "IsEnabled", []string{"return cm.enabled"}},
				{"Manager", "CleanupExpired", []string{"cm.searchCache.CleanupExpired()"}},
				{"SearchCache", "Enable", []string{"sc.enabled = enabled"}},
			} {
				m := c05Method(x, c05CachePkg, e.recv, e.name)
				if m == nil || m.Body == nil {
					s.fail("(*%s).%s not found", e.recv, e.name)
					continue
				}
				src := c05NodeStr(x, m.Body)
				for _, want := range e.want {
					if !strings.Contains(src, want) {
						s.fail("(*%s).%s: expected `%s`", e.recv, e.name, want)
					}
				}
			}
			nm := x.Func(c05CachePkg, "NewManager")
			if nm == nil || !strings.Contains(c05NodeStr(x, nm.Body), "constants.DefaultCacheCapacity") || !strings.Contains(c05NodeStr(x, nm.Body), "constants.DefaultCacheTTL") || !strings.Contains(c05NodeStr(x, nm.Body), "enabled: true") {
				s.fail("NewManager: expected NewSearchCache(constants.DefaultCacheCapacity, constants.DefaultCacheTTL) and enabled: true")
			}
			s.done()
		}

		// ---- output ------------------------------------------------------------------------------------------
		var sb strings.Builder
		sb.WriteString("namespace Wtf.Gen.CacheKey\n\n")
		sb.WriteString("/-- fields of database.SearchOptions: (name, Go type) -/\n")
		fmt.Fprintf(&sb, "def optionFields : List (String × String) := %s\n\n", c05LeanPairs(optionFields))
		sb.WriteString("/-- fields of cache.SearchOptions: (name, Go type, json name, omitempty) -/\n")
		sb.WriteString("def keyFields : List (String × String × String × Bool) := [")
		for i, k := range keyFields {
			if i > 0 {
				sb.WriteString(", ")
			}
			fmt.Fprintf(&sb, "(%s, %s, %s, %s)", leanStr(k.Name), leanStr(k.Type), leanStr(k.JSON), c05LeanBool(k.Omit))
		}
		sb.WriteString("]\n\n")
		sb.WriteString("/-- conversion literal in SearchWithOptionsAndCache: (cache field, option field copied into it) -/\n")
		fmt.Fprintf(&sb, "def convCached : List (String × String) := %s\n\n", c05LeanPairs(convCached))
		sb.WriteString("/-- conversion literal in convertToCacheOptions (monitored search) -/\n")
		fmt.Fprintf(&sb, "def convMonitored : List (String × String) := %s\n\n", c05LeanPairs(convMonitored))
		sb.WriteString("/-- option fields selected in any function of package database reachable from SearchUniversal -/\n")
		fmt.Fprintf(&sb, "def engineReads : List String := %s\n\n", leanStrList(engineReads))
		sb.WriteString("/-- what generateCacheKey hashes when json.Marshal fails (NaN / Inf): the key struct printed with %#v -/\n")
		fmt.Fprintf(&sb, "def fallbackMode : String := %s\n\n", leanStr(fallbackMode))
		fmt.Fprintf(&sb, "def engineNormalisesQuery : Bool := %s\n", c05LeanBool(engineNorm))
		fmt.Fprintf(&sb, "def keyNormalisesQuery : Bool := %s\n", c05LeanBool(keyNorm))
		fmt.Fprintf(&sb, "def updateInvalidates : Bool := %s\n", c05LeanBool(updateInvalidates))
		fmt.Fprintf(&sb, "def putMatchesGet : Bool := %s\n", c05LeanBool(putMatchesGet))
		fmt.Fprintf(&sb, "def putOnlyNonEmpty : Bool := %s\n", c05LeanBool(putOnlyNonEmpty))
		fmt.Fprintf(&sb, "def monitoredDelegates : Bool := %s\n", c05LeanBool(monitoredDelegates))
		sb.WriteString("\nend Wtf.Gen.CacheKey\n")
		x.WriteLean("CacheKey", sb.String())

		kf := []map[string]interface{}{}
		for _, k := range keyFields {
			kf = append(kf, map[string]interface{}{"name": k.Name, "type": k.Type, "json": k.JSON, "omitempty": k.Omit})
		}
		facts["optionFields"] = optionFields
		facts["keyFields"] = kf
		facts["convCached"] = convCached
		facts["convMonitored"] = convMonitored
		facts["engineReads"] = engineReads
		facts["fallbackMode"] = fallbackMode
		facts["engineNormalisesQuery"] = engineNorm
		facts["keyNormalisesQuery"] = keyNorm
		facts["updateInvalidates"] = updateInvalidates
		facts["putMatchesGet"] = putMatchesGet
		facts["putOnlyNonEmpty"] = putOnlyNonEmpty
		facts["monitoredDelegates"] = monitoredDelegates
		x.Fact("cachekey", facts)
	})
}
