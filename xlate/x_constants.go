package main

import (
	"fmt"
	"go/ast"
	"go/constant"
	"go/importer"
	"go/types"
	"sort"
	"strings"
)

// Constants: every constant of internal/constants, evaluated exactly by go/types.
//
//	ints    -> def <Name> : Int
//	floats  -> def <Name> : Wtf.Q        (exact rational)
//	strings -> def <Name> : String
//
// Durations are ints in nanoseconds.
func init() {
	register("0_constants", func(x *X) {
		files := x.Pkg("internal/constants")
		var fs []*ast.File
		names := []string{}
		for n := range files {
			names = append(names, n)
		}
		sort.Strings(names)
		for _, n := range names {
			fs = append(fs, files[n])
		}
		conf := types.Config{Importer: importer.ForCompiler(x.Fset, "source", nil), Error: func(error) {}}
		pkg, err := conf.Check("constants", x.Fset, fs, nil)
		if !x.Assert("constants:typecheck", err == nil && pkg != nil, "%v", err) && pkg == nil {
			return
		}
		var sb strings.Builder
		sb.WriteString("import WtfModel.Basic.Q\nnamespace Wtf.Gen.Constants\n\n")
		facts := map[string]string{}
		sc := pkg.Scope()
		for _, n := range sc.Names() {
			c, ok := sc.Lookup(n).(*types.Const)
			if !ok {
				continue
			}
			v := c.Val()
			b, _ := c.Type().Underlying().(*types.Basic)
			switch {
			case v.Kind() == constant.String:
				fmt.Fprintf(&sb, "def %s : String := %s\n", n, leanStr(constant.StringVal(v)))
				facts[n] = constant.StringVal(v)
			case b != nil && b.Info()&types.IsInteger != 0 || (b != nil && b.Kind() == types.UntypedInt):
				fmt.Fprintf(&sb, "def %s : Int := %s\n", n, v.ExactString())
				facts[n] = v.ExactString()
			default:
				if q, ok := leanQ(v); ok {
					fmt.Fprintf(&sb, "def %s : Wtf.Q := %s\n", n, q)
					facts[n] = v.ExactString()
				} else {
					x.Assert("constants:"+n, false, "unsupported constant kind %v", v.Kind())
				}
			}
		}
		sb.WriteString("\nend Wtf.Gen.Constants\n")
		x.WriteLean("Constants", sb.String())
		x.Fact("constants", facts)
	})
}
