package main

import (
	"bytes"
	"fmt"
	"go/ast"
	"go/printer"
	"go/token"
	"reflect"
	"regexp"
	"strconv"
	"strings"
)

// Cli (C17): the decision pipeline and the rendering block of searchCmd.Run in internal/cli/search.go.
//
// Shape assertions (sites `cli:*`) pin the ORDER of the pipeline the model `Model/Cli.lean` follows:
//
//	ValidateQuery (+ early return)  <  ValidateLimit (+ early return)  <  LoadDatabaseWithFallback (+ early return)
//	<  SearchUniversal(query, searchOptions)  <  `if len(results) == 0 { recovery; FilterResults; truncate }`
//	<  exactly one AddEntry(query, len(results), ...) between Load and Save
//	<  `if len(results) == 0 { ... return }`  <  sort.SliceStable by Score descending  <  switch strings.ToLower(format)
//
// and the facts the model is parameterised with are regenerated into Gen/Cli.lean:
//
//	the constant fields of the `database.SearchOptions{...}` literal (also handed to the harness tool c17expect),
//	the colour table (`x := color("\x1b[..m")`), the shape of the colour helper and of the NO_COLOR detection,
//	the three rendering branches as straight-line "steps" (print / assign / emit, with their guards and loop
//	membership) over a tiny expression language, the JSON item struct (names, tags, omitempty), the indent.
//
// Nothing here interprets the rendering: the meaning of the steps is `Model/Cli.lean`'s interpreter, validated
// against the bytes the real binary prints.

var c17ws = regexp.MustCompile(`\s+`)

func c17Src(x *X, n ast.Node) string {
	var b bytes.Buffer
	printer.Fprint(&b, x.Fset, n)
	return strings.TrimSpace(c17ws.ReplaceAllString(b.String(), " "))
}

func c17Bytes(s string) string {
	q := make([]string, 0, len(s))
	for i := 0; i < len(s); i++ {
		q = append(q, fmt.Sprintf("0x%02x", s[i]))
	}
	return "[" + strings.Join(q, ", ") + "]"
}

type c17Conv struct {
	x       *X
	ren     map[string]string
	unknown []string
}

func (c *c17Conv) unk(e ast.Expr) string {
	s := c17Src(c.x, e)
	c.unknown = append(c.unknown, s)
	return ".unknown " + leanStr(s)
}

func (c *c17Conv) name(n string) string {
	if r, ok := c.ren[n]; ok {
		return r
	}
	return n
}

// selector chain of identifiers a.b.c
func (c *c17Conv) selPath(e ast.Expr) (string, bool) {
	switch t := e.(type) {
	case *ast.Ident:
		return c.name(t.Name), true
	case *ast.SelectorExpr:
		p, ok := c.selPath(t.X)
		if !ok {
			return "", false
		}
		return p + "." + t.Sel.Name, true
	}
	return "", false
}

func (c *c17Conv) expr(e ast.Expr) string {
	switch t := e.(type) {
	case *ast.ParenExpr:
		return c.expr(t.X)
	case *ast.BasicLit:
		switch t.Kind {
		case token.STRING:
			if s, err := strconv.Unquote(t.Value); err == nil {
				return ".lit " + c17Bytes(s)
			}
		case token.INT:
			if v, err := strconv.ParseInt(t.Value, 0, 64); err == nil {
				return fmt.Sprintf(".int %d", v)
			}
		}
		return c.unk(e)
	case *ast.Ident:
		if t.Name == "nil" {
			return ".nil"
		}
		return ".var " + leanStr(c.name(t.Name))
	case *ast.SelectorExpr:
		if p, ok := c.selPath(t); ok {
			return ".sel " + leanStr(p)
		}
		return c.unk(e)
	case *ast.UnaryExpr:
		if t.Op == token.NOT {
			return ".not (" + c.expr(t.X) + ")"
		}
		return c.unk(e)
	case *ast.BinaryExpr:
		a, b := c.expr(t.X), c.expr(t.Y)
		switch t.Op {
		case token.ADD:
			return fmt.Sprintf(".add (%s) (%s)", a, b)
		case token.GTR:
			return fmt.Sprintf(".gt (%s) (%s)", a, b)
		case token.NEQ:
			return fmt.Sprintf(".ne (%s) (%s)", a, b)
		case token.LAND:
			return fmt.Sprintf(".and (%s) (%s)", a, b)
		}
		return c.unk(e)
	case *ast.SliceExpr:
		if t.Low == nil && t.High != nil && !t.Slice3 {
			if bl, ok := t.High.(*ast.BasicLit); ok && bl.Kind == token.INT {
				if v, err := strconv.ParseUint(bl.Value, 0, 32); err == nil {
					return fmt.Sprintf(".pfx (%s) %d", c.expr(t.X), v)
				}
			}
		}
		return c.unk(e)
	case *ast.CallExpr:
		fn := c17Src(c.x, t.Fun)
		switch {
		case fn == "len" && len(t.Args) == 1:
			return ".len (" + c.expr(t.Args[0]) + ")"
		case fn == "strings.Join" && len(t.Args) == 2:
			if s, ok := flStrLit(t.Args[1]); ok {
				return fmt.Sprintf(".join (%s) %s", c.expr(t.Args[0]), c17Bytes(s))
			}
		case fn == "strings.Repeat" && len(t.Args) == 2:
			s, ok := flStrLit(t.Args[0])
			if bl, ok2 := t.Args[1].(*ast.BasicLit); ok && ok2 && bl.Kind == token.INT {
				if n, err := strconv.Atoi(bl.Value); err == nil && n >= 0 && n < 10000 {
					return ".lit " + c17Bytes(strings.Repeat(s, n))
				}
			}
		case fn == "fmt.Sprintf" && len(t.Args) == 2:
			if s, ok := flStrLit(t.Args[0]); ok {
				return fmt.Sprintf(".sprintf %s (%s)", c17Bytes(s), c.expr(t.Args[1]))
			}
		case fn == "append" && len(t.Args) == 2 && t.Ellipsis != token.NoPos:
			return fmt.Sprintf(".appendAll (%s) (%s)", c.expr(t.Args[0]), c.expr(t.Args[1]))
		}
		return c.unk(e)
	}
	return c.unk(e)
}

type c17Walk struct {
	conv     *c17Conv
	steps    []string
	problems []string
	loops    int
	// json-only
	itemType   string
	itemFields []string // Lean JsonField terms
	itemVar    string
	outVar     string
	encVar     string
	encStdout  bool
	indent     [2]string
	haveIndent bool
	encoded    bool
}

func (w *c17Walk) guardsTerm(gs []string) string { return "[" + strings.Join(gs, ", ") + "]" }

func (w *c17Walk) emit(kind string, inLoop bool, gs []string, rest string) {
	w.steps = append(w.steps, fmt.Sprintf(".%s %v %s%s", kind, inLoop, w.guardsTerm(gs), rest))
}

func (w *c17Walk) bad(n ast.Node, why string) {
	w.problems = append(w.problems, fmt.Sprintf("%s: %s: %s", w.conv.x.Fset.Position(n.Pos()), why, c17Src(w.conv.x, n)))
}

func (w *c17Walk) stmts(list []ast.Stmt, inLoop bool, gs []string) {
	x := w.conv.x
	for _, st := range list {
		switch t := st.(type) {
		case *ast.ExprStmt:
			call, ok := t.X.(*ast.CallExpr)
			if !ok {
				w.bad(st, "unrecognised statement")
				continue
			}
			fn := c17Src(x, call.Fun)
			switch {
			case fn == "fmt.Printf" && len(call.Args) >= 1:
				f, ok := flStrLit(call.Args[0])
				if !ok {
					w.bad(st, "format is not a string literal")
					continue
				}
				as := []string{}
				for _, a := range call.Args[1:] {
					as = append(as, w.conv.expr(a))
				}
				w.steps = append(w.steps, "-- Printf "+leanStr(f))
				w.emit("print", inLoop, gs, fmt.Sprintf(" %s [%s]", c17Bytes(f), strings.Join(as, ", ")))
			case fn == "fmt.Println" && len(call.Args) == 0:
				w.emit("print", inLoop, gs, fmt.Sprintf(" %s []", c17Bytes("\n")))
			case w.encVar != "" && fn == w.encVar+".SetIndent" && len(call.Args) == 2:
				a, ok1 := flStrLit(call.Args[0])
				b, ok2 := flStrLit(call.Args[1])
				if ok1 && ok2 && !inLoop && len(gs) == 0 {
					w.indent, w.haveIndent = [2]string{a, b}, true
				} else {
					w.bad(st, "SetIndent arguments are not literals")
				}
			default:
				w.bad(st, "unrecognised call statement")
			}
		case *ast.IfStmt:
			if t.Init != nil || t.Else != nil {
				w.bad(st, "if with init/else")
				continue
			}
			w.stmts(t.Body.List, inLoop, append(append([]string{}, gs...), w.conv.expr(t.Cond)))
		case *ast.RangeStmt:
			if inLoop || len(gs) != 0 || c17Src(x, t.X) != "results" || t.Tok != token.DEFINE {
				w.bad(st, "unexpected loop")
				continue
			}
			w.loops++
			if k := awIdent(t.Key); k != "" && k != "_" {
				w.conv.ren[k] = "i"
			}
			if v := awIdent(t.Value); v != "" && v != "_" {
				w.conv.ren[v] = "r"
			}
			w.stmts(t.Body.List, true, nil)
			w.conv.ren = map[string]string{}
		case *ast.DeclStmt:
			gd, ok := t.Decl.(*ast.GenDecl)
			if ok && gd.Tok == token.TYPE && len(gd.Specs) == 1 && !inLoop && len(gs) == 0 {
				ts := gd.Specs[0].(*ast.TypeSpec)
				if stt, ok := ts.Type.(*ast.StructType); ok {
					w.itemType = ts.Name.Name
					for _, f := range stt.Fields.List {
						tag := ""
						if f.Tag != nil {
							tag, _ = strconv.Unquote(f.Tag.Value)
						}
						jt := reflect.StructTag(tag).Get("json")
						parts := strings.Split(jt, ",")
						omit := false
						for _, p := range parts[1:] {
							if p == "omitempty" {
								omit = true
							} else {
								w.bad(f, "unsupported json tag option "+p)
							}
						}
						for _, nm := range f.Names {
							jn := parts[0]
							if jn == "" {
								jn = nm.Name
							}
							if jn == "-" {
								w.bad(f, "json:\"-\" field")
							}
							w.itemFields = append(w.itemFields, fmt.Sprintf("⟨%s, %s, %v, %s, %s⟩", leanStr(nm.Name), leanStr(jn), omit, leanStr(c17Src(x, f.Type)), leanStr("it."+nm.Name)))
						}
					}
					continue
				}
			}
			w.bad(st, "unrecognised declaration")
		case *ast.AssignStmt:
			if len(t.Lhs) != 1 || len(t.Rhs) != 1 || (t.Tok != token.DEFINE && t.Tok != token.ASSIGN) {
				w.bad(st, "unrecognised assignment")
				continue
			}
			lhs, rhs := t.Lhs[0], t.Rhs[0]
			// out := make([]outItem, 0, len(results))
			if call, ok := rhs.(*ast.CallExpr); ok && c17Src(x, call.Fun) == "make" && w.itemType != "" &&
				len(call.Args) >= 1 && c17Src(x, call.Args[0]) == "[]"+w.itemType && !inLoop && t.Tok == token.DEFINE {
				w.outVar = awIdent(lhs)
				continue
			}
			// enc := json.NewEncoder(os.Stdout)
			if call, ok := rhs.(*ast.CallExpr); ok && c17Src(x, call.Fun) == "json.NewEncoder" && len(call.Args) == 1 && !inLoop {
				w.encVar = awIdent(lhs)
				w.encStdout = c17Src(x, call.Args[0]) == "os.Stdout"
				continue
			}
			// _ = enc.Encode(out)
			if call, ok := rhs.(*ast.CallExpr); ok && w.encVar != "" && c17Src(x, call.Fun) == w.encVar+".Encode" && awIdent(lhs) == "_" &&
				len(call.Args) == 1 && awIdent(call.Args[0]) == w.outVar && !inLoop && len(gs) == 0 {
				w.encoded = true
				continue
			}
			// out = append(out, it)
			if call, ok := rhs.(*ast.CallExpr); ok && w.outVar != "" && awIdent(lhs) == w.outVar && c17Src(x, call.Fun) == "append" &&
				len(call.Args) == 2 && awIdent(call.Args[0]) == w.outVar && awIdent(call.Args[1]) == w.itemVar && w.itemVar != "" && call.Ellipsis == token.NoPos {
				w.emit("emit", inLoop, gs, "")
				continue
			}
			// it := outItem{K: V, ...}
			if cl, ok := rhs.(*ast.CompositeLit); ok && w.itemType != "" && awIdent(cl.Type) == w.itemType && t.Tok == token.DEFINE {
				w.itemVar = awIdent(lhs)
				w.conv.ren[w.itemVar] = "it"
				for _, el := range cl.Elts {
					kv, ok := el.(*ast.KeyValueExpr)
					if !ok || awIdent(kv.Key) == "" {
						w.bad(el, "positional composite literal")
						continue
					}
					w.emit("assign", inLoop, gs, fmt.Sprintf(" %s (%s)", leanStr("it."+awIdent(kv.Key)), w.conv.expr(kv.Value)))
				}
				continue
			}
			var target string
			if id := awIdent(lhs); id != "" && id != "_" {
				target = w.conv.name(id)
			} else if p, ok := w.conv.selPath(lhs); ok && strings.HasPrefix(p, "it.") {
				target = p
			} else {
				w.bad(st, "unrecognised assignment target")
				continue
			}
			w.emit("assign", inLoop, gs, fmt.Sprintf(" %s (%s)", leanStr(target), w.conv.expr(rhs)))
		default:
			w.bad(st, "unrecognised statement")
		}
	}
}

func c17IsErrReturn(x *X, st ast.Stmt) bool {
	is, ok := st.(*ast.IfStmt)
	if !ok || is.Init != nil || is.Else != nil || c17Src(x, is.Cond) != "err != nil" || len(is.Body.List) == 0 {
		return false
	}
	rs, ok := is.Body.List[len(is.Body.List)-1].(*ast.ReturnStmt)
	return ok && len(rs.Results) == 0
}

func init() {
	register("cli", func(x *X) {
		files := x.Pkg("internal/cli")
		// ---- searchCmd.Run
		var run *ast.FuncLit
		for _, f := range files {
			for _, d := range f.Decls {
				gd, ok := d.(*ast.GenDecl)
				if !ok || gd.Tok != token.VAR {
					continue
				}
				for _, sp := range gd.Specs {
					vs := sp.(*ast.ValueSpec)
					for i, nm := range vs.Names {
						if nm.Name != "searchCmd" || i >= len(vs.Values) {
							continue
						}
						ast.Inspect(vs.Values[i], func(n ast.Node) bool {
							if kv, ok := n.(*ast.KeyValueExpr); ok && awIdent(kv.Key) == "Run" {
								if fl, ok := kv.Value.(*ast.FuncLit); ok {
									run = fl
								}
							}
							return true
						})
					}
				}
			}
		}
		if !x.Assert("cli:search-run", run != nil, "`var searchCmd = &cobra.Command{ Run: func(...) {...} }` not found in internal/cli") {
			return
		}
		body := run.Body.List
		src := func(n ast.Node) string { return c17Src(x, n) }
		find := func(from int, pred func(ast.Stmt) bool) int {
			for i := from; i < len(body); i++ {
				if pred(body[i]) {
					return i
				}
			}
			return -1
		}
		count := func(sub string) int {
			n := 0
			ast.Inspect(run.Body, func(nd ast.Node) bool {
				if ce, ok := nd.(*ast.CallExpr); ok && strings.HasSuffix(src(ce.Fun), sub) {
					n++
				}
				return true
			})
			return n
		}
		isAssignCall := func(st ast.Stmt, lhs, fun string) bool {
			as, ok := st.(*ast.AssignStmt)
			if !ok || len(as.Rhs) != 1 {
				return false
			}
			ce, ok := as.Rhs[0].(*ast.CallExpr)
			if !ok || src(ce.Fun) != fun {
				return false
			}
			l := []string{}
			for _, e := range as.Lhs {
				l = append(l, src(e))
			}
			return strings.Join(l, ", ") == lhs
		}
		// ---- 1. validation of the query, early return, query = cleanQuery
		iVQ := find(0, func(s ast.Stmt) bool { return src(s) == "cleanQuery, err := validation.ValidateQuery(query)" })
		okVQ := iVQ >= 0 && iVQ+2 < len(body) && c17IsErrReturn(x, body[iVQ+1]) && src(body[iVQ+2]) == "query = cleanQuery"
		x.Assert("cli:validate-query-first", okVQ && iVQ <= 2 && count("validation.ValidateQuery") == 1,
			"expected `cleanQuery, err := validation.ValidateQuery(query); if err != nil { ...; return }; query = cleanQuery` at the top of searchCmd.Run")
		// ---- 2. limit
		iVL := find(0, func(s ast.Stmt) bool { return src(s) == "validLimit, err := validation.ValidateLimit(flags.limit)" })
		okVL := iVL > iVQ && iVL+2 < len(body) && c17IsErrReturn(x, body[iVL+1]) && src(body[iVL+2]) == "flags.limit = validLimit"
		iLim := find(0, func(s ast.Stmt) bool { return src(s) == `flags.limit, _ = cmd.Flags().GetInt("limit")` })
		iCfg := find(0, func(s ast.Stmt) bool { return src(s) == "if flags.limit > 0 { cfg.MaxResults = flags.limit }" })
		x.Assert("cli:validate-limit", okVL && iLim > iVQ && iLim < iVL && iCfg > iVL && count("validation.ValidateLimit") == 1,
			"expected `flags.limit, _ = cmd.Flags().GetInt(\"limit\")` ... `validLimit, err := validation.ValidateLimit(flags.limit); if err != nil { ...; return }; flags.limit = validLimit` ... `if flags.limit > 0 { cfg.MaxResults = flags.limit }`")
		// the other flags the handler reads
		flagReads := map[string]string{
			"verbose": `flags.verbose, _ = cmd.Flags().GetBool("verbose")`, "platform": `flags.platforms, _ = cmd.Flags().GetStringSlice("platform")`,
			"all-platforms": `flags.allPlatforms, _ = cmd.Flags().GetBool("all-platforms")`, "no-cross-platform": `flags.noCrossPlatform, _ = cmd.Flags().GetBool("no-cross-platform")`,
			"format": `format, _ := cmd.Flags().GetString("format")`,
		}
		missing := []string{}
		for k, v := range flagReads {
			if find(0, func(s ast.Stmt) bool { return src(s) == v }) < 0 {
				missing = append(missing, k)
			}
		}
		x.Assert("cli:flag-reads", len(missing) == 0, "flag reads not found in the expected form: %v", missing)
		// ---- 3. load with recovery, early return
		iLoad := find(0, func(s ast.Stmt) bool { return isAssignCall(s, "db, err", "dbRecovery.LoadDatabaseWithFallback") })
		iRec := find(0, func(s ast.Stmt) bool {
			return src(s) == "dbRecovery := recovery.NewDatabaseRecovery(recovery.DefaultRetryConfig())"
		})
		okLoad := iLoad > iCfg && iRec >= 0 && iRec < iLoad && iLoad+1 < len(body) && c17IsErrReturn(x, body[iLoad+1]) &&
			src(body[iLoad]) == "db, err := dbRecovery.LoadDatabaseWithFallback(dbFilePath, personalDBPath)" &&
			find(0, func(s ast.Stmt) bool { return src(s) == "dbFilePath := cfg.GetDatabasePath()" }) > iCfg &&
			find(0, func(s ast.Stmt) bool { return src(s) == "personalDBPath := cfg.GetPersonalDatabasePath()" }) > 0 &&
			find(0, func(s ast.Stmt) bool { return src(s) == `if flags.dbPath != "" { cfg.DatabasePath = flags.dbPath }` }) > 0
		x.Assert("cli:load-with-recovery", okLoad, "expected `dbRecovery := recovery.NewDatabaseRecovery(recovery.DefaultRetryConfig())`, `db, err := dbRecovery.LoadDatabaseWithFallback(dbFilePath, personalDBPath)` followed by `if err != nil { ...; return }`")
		// ---- 4. options literal and engine call
		iOpt := find(0, func(s ast.Stmt) bool {
			as, ok := s.(*ast.AssignStmt)
			return ok && len(as.Lhs) == 1 && src(as.Lhs[0]) == "searchOptions" && as.Tok == token.DEFINE
		})
		optConst := map[string]interface{}{}
		optFlags := map[string]string{}
		optProblems := []string{}
		if iOpt >= 0 {
			cl, ok := body[iOpt].(*ast.AssignStmt).Rhs[0].(*ast.CompositeLit)
			if !ok || src(cl.Type) != "database.SearchOptions" {
				optProblems = append(optProblems, "not a database.SearchOptions literal")
			} else {
				for _, el := range cl.Elts {
					kv, ok := el.(*ast.KeyValueExpr)
					if !ok {
						optProblems = append(optProblems, "positional element")
						continue
					}
					k, v := awIdent(kv.Key), src(kv.Value)
					switch {
					case v == "true" || v == "false":
						optConst[k] = v == "true"
					case strings.HasPrefix(v, "flags.") || v == "cfg.MaxResults":
						optFlags[k] = v
					default:
						if n, err := strconv.ParseInt(strings.ReplaceAll(v, " ", ""), 0, 64); err == nil {
							optConst[k] = n
						} else if f, err := strconv.ParseFloat(strings.ReplaceAll(v, " ", ""), 64); err == nil {
							optConst[k] = f
						} else {
							optProblems = append(optProblems, k+": "+v)
						}
					}
				}
			}
		}
		wantFlags := map[string]string{"Limit": "cfg.MaxResults", "AllPlatforms": "flags.allPlatforms", "Platforms": "flags.platforms", "NoCrossPlatform": "flags.noCrossPlatform"}
		x.Assert("cli:search-options-literal", iOpt > iLoad && len(optProblems) == 0 && reflect.DeepEqual(optFlags, wantFlags),
			"expected `searchOptions := database.SearchOptions{Limit: cfg.MaxResults, <constant fields>, AllPlatforms: flags.allPlatforms, Platforms: flags.platforms, NoCrossPlatform: flags.noCrossPlatform}`; got flag fields %v problems %v", optFlags, optProblems)
		// the model (Search.Opts) knows these constant fields; anything else cannot flow into it
		known := map[string]bool{"UseFuzzy": true, "FuzzyThreshold": true, "UseNLP": true, "PipelineOnly": true, "TopTermsCap": true}
		extra := []string{}
		for k := range optConst {
			if !known[k] {
				extra = append(extra, k)
			}
		}
		x.Assert("cli:search-options-known-fields", len(extra) == 0, "constant option fields the model does not carry: %v", extra)
		x.Fact("cli.searchOptions", optConst)
		iBoost := find(0, func(s ast.Stmt) bool {
			return src(s) == "if projectContext != nil { searchOptions.ContextBoosts = projectContext.GetContextBoosts() }"
		})
		iEng := find(0, func(s ast.Stmt) bool { return src(s) == "results := db.SearchUniversal(query, searchOptions)" })
		x.Assert("cli:engine-call", iEng > iOpt && iBoost > iOpt && iBoost < iEng && count(".SearchUniversal") == 1 &&
			find(iVQ+3, func(s ast.Stmt) bool {
				return strings.HasPrefix(src(s), "query =") || strings.HasPrefix(src(s), "query :=")
			}) < 0,
			"expected `if projectContext != nil { searchOptions.ContextBoosts = ... }` then `results := db.SearchUniversal(query, searchOptions)` with `query` not reassigned after validation")
		// ---- 5. recovery block
		wantRec := "if len(results) == 0 { searchRecovery := recovery.NewSearchRecovery() " +
			"recoveredResults, recoveryErr := searchRecovery.RecoverFromSearchFailure(query, nil, db) " +
			"recoveredResults = database.FilterResults(recoveredResults, searchOptions) " +
			"if recoveryErr == nil && len(recoveredResults) > 0 { " +
			"if len(recoveredResults) > searchOptions.Limit { recoveredResults = recoveredResults[:searchOptions.Limit] } " +
			"results = recoveredResults } }"
		iRcv := find(iEng+1, func(s ast.Stmt) bool { return strings.HasPrefix(src(s), "if len(results) == 0 {") })
		x.Assert("cli:recovery-filtered-and-truncated", iRcv > iEng && src(body[iRcv]) == wantRec,
			"the recovery block after the engine call is not `%s`", wantRec)
		// ---- 6. history: New, Load, exactly one AddEntry, Save
		iNew := find(0, func(s ast.Stmt) bool { return isAssignCall(s, "searchHistory", "history.NewSearchHistory") })
		histMax := ""
		if iNew >= 0 {
			ce := body[iNew].(*ast.AssignStmt).Rhs[0].(*ast.CallExpr)
			if len(ce.Args) == 2 {
				if bl, ok := ce.Args[1].(*ast.BasicLit); ok && bl.Kind == token.INT {
					histMax = bl.Value
				}
			}
		}
		iHL := find(0, func(s ast.Stmt) bool { return src(s) == "_ = searchHistory.Load()" })
		iAdd := find(0, func(s ast.Stmt) bool {
			return src(s) == "searchHistory.AddEntry(query, len(results), contextDesc, searchDuration)"
		})
		iSave := find(0, func(s ast.Stmt) bool { return src(s) == "_ = searchHistory.Save()" })
		x.Assert("cli:history-one-addentry", iRcv >= 0 && iNew > iRcv && iHL > iNew && iAdd > iHL && iSave > iAdd && histMax != "" &&
			count(".AddEntry") == 1 && count(".Save") == 1 && count("history.NewSearchHistory") == 1,
			"expected, after the recovery block and at the top level of Run: `searchHistory := history.NewSearchHistory(historyPath, <int>)`, `_ = searchHistory.Load()`, exactly one `searchHistory.AddEntry(query, len(results), contextDesc, searchDuration)`, `_ = searchHistory.Save()`")
		// ---- 7. nothing found: suggestions and return
		iNone := find(iSave+1, func(s ast.Stmt) bool { return strings.HasPrefix(src(s), "if len(results) == 0 {") })
		okNone := false
		if iNone > iSave && iSave > 0 {
			is := body[iNone].(*ast.IfStmt)
			if is.Else == nil && len(is.Body.List) > 0 {
				if rs, ok := is.Body.List[len(is.Body.List)-1].(*ast.ReturnStmt); ok && len(rs.Results) == 0 {
					okNone = true
				}
			}
		}
		x.Assert("cli:nothing-found-returns", okNone, "expected `if len(results) == 0 { ...suggestions...; return }` after the history update")
		// ---- 8. colour: flag, NO_COLOR, helper, table
		iNC := find(0, func(s ast.Stmt) bool { return src(s) == `noColor, _ := cmd.Flags().GetBool("no-color")` })
		iEnv := find(0, func(s ast.Stmt) bool {
			return src(s) == `if !noColor { if _, ok := os.LookupEnv("NO_COLOR"); ok { noColor = true } }`
		})
		iHelper := find(0, func(s ast.Stmt) bool {
			return src(s) == `color := func(code string) string { if noColor { return "" } return code }`
		})
		nNoColorAssign := 0
		ast.Inspect(run.Body, func(nd ast.Node) bool {
			if as, ok := nd.(*ast.AssignStmt); ok {
				for _, l := range as.Lhs {
					if awIdent(l) == "noColor" {
						nNoColorAssign++
					}
				}
			}
			return true
		})
		x.Assert("cli:no-color-detection", iNC > iNone && iEnv > iNC && iHelper > iEnv && nNoColorAssign == 2,
			"expected `noColor, _ := cmd.Flags().GetBool(\"no-color\")`, `if !noColor { if _, ok := os.LookupEnv(\"NO_COLOR\"); ok { noColor = true } }`, `color := func(code string) string { if noColor { return \"\" } return code }` and no other assignment to noColor")
		type col struct{ name, code string }
		cols := []col{}
		colorArgs := map[*ast.BasicLit]bool{}
		for i, st := range body {
			as, ok := st.(*ast.AssignStmt)
			if !ok || len(as.Lhs) != 1 || len(as.Rhs) != 1 || i < iHelper {
				continue
			}
			ce, ok := as.Rhs[0].(*ast.CallExpr)
			if !ok || awIdent(ce.Fun) != "color" || len(ce.Args) != 1 {
				continue
			}
			if s, ok := flStrLit(ce.Args[0]); ok && as.Tok == token.DEFINE {
				cols = append(cols, col{awIdent(as.Lhs[0]), s})
				colorArgs[ce.Args[0].(*ast.BasicLit)] = true
			}
		}
		// every string literal of Run that contains ESC must be an argument of color(...)
		rawEsc := []string{}
		nColorCalls := 0
		ast.Inspect(run.Body, func(nd ast.Node) bool {
			switch t := nd.(type) {
			case *ast.BasicLit:
				if t.Kind == token.STRING && !colorArgs[t] {
					if s, err := strconv.Unquote(t.Value); err == nil && strings.Contains(s, "\x1b") {
						rawEsc = append(rawEsc, t.Value)
					}
				}
			case *ast.CallExpr:
				if awIdent(t.Fun) == "color" {
					nColorCalls++
				}
			}
			return true
		})
		// the colour variables are assigned once
		reassigned := []string{}
		for _, c := range cols {
			n := 0
			ast.Inspect(run.Body, func(nd ast.Node) bool {
				if as, ok := nd.(*ast.AssignStmt); ok {
					for _, l := range as.Lhs {
						if awIdent(l) == c.name {
							n++
						}
					}
				}
				return true
			})
			if n != 1 {
				reassigned = append(reassigned, c.name)
			}
		}
		x.Assert("cli:escapes-only-through-color-helper", len(cols) > 0 && len(rawEsc) == 0 && nColorCalls == len(cols) && len(reassigned) == 0,
			"%d colour variables; string literals containing ESC outside color(...): %v; colour variables assigned more than once: %v", len(cols), rawEsc, reassigned)
		// ---- 9. stable re-sort, then the format switch
		wantSort := "sort.SliceStable(results, func(i, j int) bool { return results[i].Score > results[j].Score })"
		iSort := find(0, func(s ast.Stmt) bool { return src(s) == wantSort })
		iSw := find(0, func(s ast.Stmt) bool {
			sw, ok := s.(*ast.SwitchStmt)
			return ok && sw.Init == nil && sw.Tag != nil && src(sw.Tag) == "strings.ToLower(format)"
		})
		nPrintsBefore := 0 // result fields printed before the switch
		if iSw > 0 {
			for _, st := range body[iEng:iSw] {
				ast.Inspect(st, func(nd ast.Node) bool {
					if se, ok := nd.(*ast.SelectorExpr); ok && (src(se) == "r.Command" || src(se) == "result.Command") {
						nPrintsBefore++
					}
					return true
				})
			}
		}
		x.Assert("cli:stable-resort-before-render", iSort > iNone && iSw > iSort && iSw > iHelper && count("sort.SliceStable") == 1 && nPrintsBefore == 0,
			"expected `%s` after the nothing-found return and before `switch strings.ToLower(format)`, and no result printed before the switch", wantSort)
		if iSw < 0 {
			return
		}
		// nothing after the switch touches the results (the verbose timing line is all there is today; its wording is free)
		tailOK := true
		for _, st := range body[iSw+1:] {
			ast.Inspect(st, func(nd ast.Node) bool {
				if id, ok := nd.(*ast.Ident); ok && (id.Name == "results" || id.Name == "db" || id.Name == "searchHistory") {
					tailOK = false
				}
				return true
			})
		}
		x.Assert("cli:nothing-but-timing-after-render", tailOK, "a statement after the format switch refers to the results, the database or the history")
		// ---- 10. the three branches
		sw := body[iSw].(*ast.SwitchStmt)
		var jsonC, tableC, listC *ast.CaseClause
		okCases := true
		for _, c := range sw.Body.List {
			cc := c.(*ast.CaseClause)
			switch {
			case cc.List == nil:
				listC = cc
			case len(cc.List) == 1 && src(cc.List[0]) == `"json"`:
				jsonC = cc
			case len(cc.List) == 1 && src(cc.List[0]) == `"table"`:
				tableC = cc
			default:
				okCases = false
			}
		}
		if !x.Assert("cli:format-switch", okCases && jsonC != nil && tableC != nil && listC != nil,
			"expected `switch strings.ToLower(format) { case \"json\": ... case \"table\": ... default: ... }`") {
			return
		}
		walk := func(cc *ast.CaseClause) *c17Walk {
			w := &c17Walk{conv: &c17Conv{x: x, ren: map[string]string{}}}
			w.stmts(cc.Body, false, nil)
			return w
		}
		wl, wt, wj := walk(listC), walk(tableC), walk(jsonC)
		x.Assert("cli:render-list", len(wl.problems) == 0 && len(wl.conv.unknown) == 0 && wl.loops == 1, "list branch: problems %v; unrecognised expressions %v", wl.problems, wl.conv.unknown)
		x.Assert("cli:render-table", len(wt.problems) == 0 && len(wt.conv.unknown) == 0 && wt.loops == 1, "table branch: problems %v; unrecognised expressions %v", wt.problems, wt.conv.unknown)
		x.Assert("cli:render-json", len(wj.problems) == 0 && len(wj.conv.unknown) == 0 && wj.loops == 1 && wj.encStdout && wj.haveIndent && wj.encoded && len(wj.itemFields) > 0,
			"json branch: problems %v; unrecognised expressions %v; encoder-to-stdout=%v indent=%v encoded=%v fields=%d", wj.problems, wj.conv.unknown, wj.encStdout, wj.haveIndent, wj.encoded, len(wj.itemFields))

		// ---- config.DefaultConfig().MaxResults (the limit in force when the validated limit is not positive)
		cfgMax := ""
		if fd := x.Func("internal/config", "DefaultConfig"); fd != nil && fd.Body != nil {
			ast.Inspect(fd.Body, func(nd ast.Node) bool {
				if kv, ok := nd.(*ast.KeyValueExpr); ok && awIdent(kv.Key) == "MaxResults" {
					if bl, ok := kv.Value.(*ast.BasicLit); ok && bl.Kind == token.INT {
						cfgMax = bl.Value
					}
				}
				return true
			})
		}
		if !x.Assert("cli:config-default-max-results", cfgMax != "", "expected `MaxResults: <int literal>` in config.DefaultConfig") {
			cfgMax = "0"
		}

		// ---- Gen/Cli.lean
		var sb strings.Builder
		sb.WriteString("namespace Wtf.Gen.Cli\n\n")
		sb.WriteString("/-- expressions of the rendering block of searchCmd.Run (loop variables renamed to `i`, `r`; the JSON item to `it`) -/\n")
		sb.WriteString("inductive Expr where\n  | lit (b : List UInt8)\n  | var (name : String)\n  | sel (path : String)\n  | int (n : Int)\n  | nil\n  | len (e : Expr)\n  | add (a b : Expr)\n  | pfx (e : Expr) (hi : Nat)\n  | join (e : Expr) (sep : List UInt8)\n  | sprintf (fmt : List UInt8) (e : Expr)\n  | appendAll (a b : Expr)\n  | gt (a b : Expr)\n  | ne (a b : Expr)\n  | not (a : Expr)\n  | and (a b : Expr)\n  | unknown (src : String)\nderiving Repr\n\n")
		sb.WriteString("/-- one statement of a rendering branch: `inLoop` = inside `for i, r := range results`; `guards` = enclosing `if` conditions -/\n")
		sb.WriteString("inductive Step where\n  | print (inLoop : Bool) (guards : List Expr) (fmt : List UInt8) (args : List Expr)\n  | assign (inLoop : Bool) (guards : List Expr) (target : String) (value : Expr)\n  | emit (inLoop : Bool) (guards : List Expr)\nderiving Repr\n\n")
		sb.WriteString("structure JsonField where\n  goName : String\n  jsonName : String\n  omitEmpty : Bool\n  goType : String\n  itKey : String   -- the step variable holding the field: \"it.\" ++ goName\nderiving Repr, DecidableEq\n\n")
		b2l := func(b bool) string {
			if b {
				return "true"
			}
			return "false"
		}
		getB := func(k string, d bool) string {
			if v, ok := optConst[k].(bool); ok {
				return b2l(v)
			}
			return b2l(d)
		}
		getI := func(k string) string {
			if v, ok := optConst[k].(int64); ok {
				return strconv.FormatInt(v, 10)
			}
			return "0"
		}
		sb.WriteString("/-! constant fields of the `database.SearchOptions{...}` literal (absent = Go zero value) -/\n")
		fmt.Fprintf(&sb, "def optUseFuzzy : Bool := %s\ndef optFuzzyThreshold : Int := %s\ndef optUseNLP : Bool := %s\ndef optPipelineOnly : Bool := %s\ndef optTopTermsCap : Int := %s\n\n",
			getB("UseFuzzy", false), getI("FuzzyThreshold"), getB("UseNLP", false), getB("PipelineOnly", false), getI("TopTermsCap"))
		if histMax == "" {
			histMax = "0"
		}
		fmt.Fprintf(&sb, "/-- second argument of history.NewSearchHistory in searchCmd.Run -/\ndef historyMax : Int := %s\n\n", histMax)
		fmt.Fprintf(&sb, "/-- `MaxResults` of config.DefaultConfig() -/\ndef cfgMaxResults : Int := %s\n\n", cfgMax)
		sb.WriteString("/-- `x := color(\"...\")`: colour variable and its escape sequence -/\ndef colors : List (String × List UInt8) := [")
		for i, c := range cols {
			if i > 0 {
				sb.WriteString(", ")
			}
			fmt.Fprintf(&sb, "(%s, %s)", leanStr(c.name), c17Bytes(c.code))
		}
		sb.WriteString("]\n\n")
		steps := func(name string, w *c17Walk) {
			fmt.Fprintf(&sb, "def %s : List Step := [", name)
			first := true
			for _, s := range w.steps {
				if strings.HasPrefix(s, "--") {
					sb.WriteString("\n  " + s)
					continue
				}
				if !first {
					sb.WriteString("\n  , " + s)
				} else {
					sb.WriteString("\n    " + s)
				}
				first = false
			}
			sb.WriteString(" ]\n\n")
		}
		steps("listSteps", wl)
		steps("tableSteps", wt)
		steps("jsonSteps", wj)
		fmt.Fprintf(&sb, "def jsonFields : List JsonField := [%s]\n\n", strings.Join(wj.itemFields, ", "))
		fmt.Fprintf(&sb, "/-- enc.SetIndent(prefix, indent) -/\ndef jsonPrefix : List UInt8 := %s\ndef jsonIndent : List UInt8 := %s\n\n", c17Bytes(wj.indent[0]), c17Bytes(wj.indent[1]))
		sb.WriteString("end Wtf.Gen.Cli\n")
		x.WriteLean("Cli", sb.String())
		colFact := map[string]string{}
		for _, c := range cols {
			colFact[c.name] = c.code
		}
		x.Fact("cli.colors", colFact)
		x.Fact("cli.historyMax", histMax)
	})
}
