package main

import (
	"bytes"
	"go/ast"
	"go/parser"
	"go/printer"
	"go/token"
	"os"
	"path"
	"regexp"
	"strconv"
)

// stubFile writes a copy of the hook file `in` in which every function body is replaced by
// panic("verif-hook-unavailable:<name>").  It is used when a hook no longer compiles against the source (an unexported
// function it reads was renamed, removed or changed its signature): the harness then still builds, and only the cases
// that actually call into the broken hook report it (see lib/core.py build_harness).
func stubFile(in, out, name string) error {
	fset := token.NewFileSet()
	f, err := parser.ParseFile(fset, in, nil, parser.ParseComments)
	if err != nil {
		return err
	}
	for _, d := range f.Decls {
		if fd, ok := d.(*ast.FuncDecl); ok && fd.Body != nil {
			fd.Body = &ast.BlockStmt{List: []ast.Stmt{&ast.ExprStmt{X: &ast.CallExpr{Fun: ast.NewIdent("panic"),
				Args: []ast.Expr{&ast.BasicLit{Kind: token.STRING, Value: strconv.Quote("verif-hook-unavailable:" + name)}}}}}}
		}
	}
	// keep only the comments in front of the package clause (the build constraint)
	var keep []*ast.CommentGroup
	for _, cg := range f.Comments {
		if cg.End() < f.Package {
			keep = append(keep, cg)
		}
	}
	f.Comments = keep
	for _, d := range f.Decls {
		if fd, ok := d.(*ast.FuncDecl); ok {
			fd.Doc = nil
		}
		if gd, ok := d.(*ast.GenDecl); ok {
			gd.Doc = nil
		}
	}
	used := map[string]bool{}
	ast.Inspect(f, func(n ast.Node) bool {
		if se, ok := n.(*ast.SelectorExpr); ok {
			if id, ok := se.X.(*ast.Ident); ok {
				used[id.Name] = true
			}
		}
		return true
	})
	ver := regexp.MustCompile(`^v[0-9]+$`)
	dotv := regexp.MustCompile(`\.v[0-9]+$`)
	var decls []ast.Decl
	for _, d := range f.Decls {
		gd, ok := d.(*ast.GenDecl)
		if !ok || gd.Tok != token.IMPORT {
			decls = append(decls, d)
			continue
		}
		var specs []ast.Spec
		for _, s := range gd.Specs {
			is := s.(*ast.ImportSpec)
			p, _ := strconv.Unquote(is.Path.Value)
			n := path.Base(p)
			if ver.MatchString(n) {
				n = path.Base(path.Dir(p))
			}
			n = dotv.ReplaceAllString(n, "")
			if is.Name != nil {
				n = is.Name.Name
			}
			if n == "_" || n == "." || used[n] {
				is.Doc, is.Comment = nil, nil
				specs = append(specs, is)
			}
		}
		if len(specs) > 0 {
			gd.Specs = specs
			decls = append(decls, gd)
		}
	}
	f.Decls = decls
	f.Imports = nil
	var buf bytes.Buffer
	if err := printer.Fprint(&buf, fset, f); err != nil {
		return err
	}
	return os.WriteFile(out, buf.Bytes(), 0o644)
}
