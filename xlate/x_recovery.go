package main

import (
	"fmt"
	"go/ast"
	"go/token"
	"math/big"
	"os"
	"strconv"
	"strings"
)

// Recovery (C15): everything Model/Retry.lean and Props/C15.lean take from the source.
//
//	errors.go    the ordered decision table of NewDatabaseErrorWithContext
//	             (needles -> constructor -> AppError type), ErrorType constant values,
//	             AppError.Unwrap returning Cause
//	recovery.go  DefaultRetryConfig values; the shape of the retry loop; which predicates
//	             shouldRetry uses (errors.Is follows Unwrap, os.IsNotExist does not) and which
//	             AppError types stop retrying; calculateDelay's formula and cap; the order of
//	             the fallback ladder; the command strings of the embedded / minimal databases
//	loader.go    LoadDatabase wraps both failure sites with NewDatabaseErrorWithContext;
//	             LoadDatabaseWithPersonal's three tolerated forms of a missing notebook
//	search.go    the CLI uses DefaultRetryConfig() and LoadDatabaseWithFallback
//
// Every shape relied upon is asserted; an unrecognised shape breaks the tie (site "recovery:*").
func init() { register("recovery", xRecovery) }

func src(x *X, n ast.Node) string {
	if n == nil {
		return ""
	}
	var sb strings.Builder
	printNode(&sb, x, n)
	return sb.String()
}

// printNode renders an expression/statement compactly (enough to compare shapes textually).
func printNode(sb *strings.Builder, x *X, n ast.Node) {
	p1, p2 := x.Fset.Position(n.Pos()), x.Fset.Position(n.End())
	data := fileBytes(x, p1.Filename)
	if data == nil || p2.Offset > len(data) {
		return
	}
	s := string(data[p1.Offset:p2.Offset])
	// normalise white space
	sb.WriteString(strings.Join(strings.Fields(s), " "))
}

var fileCache = map[string][]byte{}

func fileBytes(x *X, name string) []byte {
	if b, ok := fileCache[name]; ok {
		return b
	}
	b, err := os.ReadFile(name)
	if err != nil {
		return nil
	}
	fileCache[name] = b
	return b
}

// stdErrorsAlias returns the local name under which the standard library "errors" package is
// imported in the file declaring fd ("" if it is not imported).
func importAlias(x *X, rel string, fd *ast.FuncDecl, path string) string {
	for _, f := range x.Pkg(rel) {
		if fd.Pos() < f.Pos() || fd.End() > f.End() {
			continue
		}
		for _, im := range f.Imports {
			p, _ := strconv.Unquote(im.Path.Value)
			if p != path {
				continue
			}
			if im.Name != nil {
				return im.Name.Name
			}
			if i := strings.LastIndex(p, "/"); i >= 0 {
				return p[i+1:]
			}
			return p
		}
	}
	return ""
}

func selName(e ast.Expr) (string, string) { // pkg.Name or recv.Name
	if s, ok := e.(*ast.SelectorExpr); ok {
		if id, ok := s.X.(*ast.Ident); ok {
			return id.Name, s.Sel.Name
		}
	}
	return "", ""
}

func recStrLit(e ast.Expr) (string, bool) {
	if l, ok := e.(*ast.BasicLit); ok && l.Kind == token.STRING {
		s, err := strconv.Unquote(l.Value)
		return s, err == nil
	}
	return "", false
}

// containsNeedles: `strings.Contains(errStr, "a") || strings.Contains(errStr, "b")` -> [a b]
func containsNeedles(e ast.Expr, subject string) ([]string, bool) {
	switch v := e.(type) {
	case *ast.ParenExpr:
		return containsNeedles(v.X, subject)
	case *ast.BinaryExpr:
		if v.Op != token.LOR {
			return nil, false
		}
		a, ok1 := containsNeedles(v.X, subject)
		b, ok2 := containsNeedles(v.Y, subject)
		return append(a, b...), ok1 && ok2
	case *ast.CallExpr:
		p, n := selName(v.Fun)
		if p != "strings" || n != "Contains" || len(v.Args) != 2 {
			return nil, false
		}
		if id, ok := v.Args[0].(*ast.Ident); !ok || id.Name != subject {
			return nil, false
		}
		s, ok := recStrLit(v.Args[1])
		return []string{s}, ok
	}
	return nil, false
}

// innermostCall strips method chains: f(a).WithX(b).WithY(c) -> f(a)
func innermostCall(e ast.Expr) *ast.CallExpr {
	for {
		c, ok := e.(*ast.CallExpr)
		if !ok {
			return nil
		}
		if s, ok := c.Fun.(*ast.SelectorExpr); ok {
			if inner, ok := s.X.(*ast.CallExpr); ok {
				e = inner
				continue
			}
		}
		return c
	}
}

// appErrorTypeOf: the body of a constructor `return NewAppError(ErrorTypeX, ..., cause).With...`
// -> ("ErrorTypeX", third argument is the identifier `cause`)
func newAppErrorArgs(c *ast.CallExpr) (typ string, causeArg string, ok bool) {
	if c == nil {
		return
	}
	id, isId := c.Fun.(*ast.Ident)
	if !isId || id.Name != "NewAppError" || len(c.Args) != 3 {
		return
	}
	t, isT := c.Args[0].(*ast.Ident)
	if !isT {
		return
	}
	switch a := c.Args[2].(type) {
	case *ast.Ident:
		causeArg = a.Name
	default:
		causeArg = "?"
	}
	return t.Name, causeArg, true
}

func singleReturn(fd *ast.FuncDecl) *ast.ReturnStmt {
	var rets []*ast.ReturnStmt
	ast.Inspect(fd.Body, func(n ast.Node) bool {
		if _, ok := n.(*ast.FuncLit); ok {
			return false
		}
		if r, ok := n.(*ast.ReturnStmt); ok {
			rets = append(rets, r)
		}
		return true
	})
	if len(rets) == 1 {
		return rets[0]
	}
	return nil
}

var durationUnits = map[string]int64{"Nanosecond": 1, "Microsecond": 1e3, "Millisecond": 1e6, "Second": 1e9, "Minute": 60e9, "Hour": 3600e9}

// durationNs evaluates `N * time.Unit`, `time.Unit * N`, `time.Unit`, `N`.
func durationNs(e ast.Expr) (int64, bool) {
	switch v := e.(type) {
	case *ast.BasicLit:
		if v.Kind == token.INT {
			n, err := strconv.ParseInt(v.Value, 0, 64)
			return n, err == nil
		}
	case *ast.SelectorExpr:
		if p, n := selName(v); p == "time" {
			u, ok := durationUnits[n]
			return u, ok
		}
	case *ast.BinaryExpr:
		if v.Op == token.MUL {
			a, ok1 := durationNs(v.X)
			b, ok2 := durationNs(v.Y)
			return a * b, ok1 && ok2
		}
	case *ast.ParenExpr:
		return durationNs(v.X)
	case *ast.UnaryExpr:
		if v.Op == token.SUB {
			a, ok := durationNs(v.X)
			return -a, ok
		}
	}
	return 0, false
}

func floatLitQ(e ast.Expr) (string, bool) {
	neg := false
	if u, ok := e.(*ast.UnaryExpr); ok && u.Op == token.SUB {
		neg, e = true, u.X
	}
	l, ok := e.(*ast.BasicLit)
	if !ok || (l.Kind != token.FLOAT && l.Kind != token.INT) {
		return "", false
	}
	r, ok := new(big.Rat).SetString(l.Value)
	if !ok {
		return "", false
	}
	if neg {
		r.Neg(r)
	}
	return fmt.Sprintf("⟨%s, %s⟩", r.Num().String(), r.Denom().String()), true
}

// commandStrings: the `Command: "..."` values of the composite literal assigned to `varName`.
func commandStrings(fd *ast.FuncDecl, varName string) ([]string, bool) {
	var out []string
	found, ok := false, true
	for _, st := range fd.Body.List {
		as, isAs := st.(*ast.AssignStmt)
		if !isAs || len(as.Lhs) != 1 || len(as.Rhs) != 1 {
			continue
		}
		if id, isId := as.Lhs[0].(*ast.Ident); !isId || id.Name != varName {
			continue
		}
		cl, isCl := as.Rhs[0].(*ast.CompositeLit)
		if !isCl {
			return nil, false
		}
		found = true
		for _, el := range cl.Elts {
			ecl, isE := el.(*ast.CompositeLit)
			if !isE {
				return nil, false
			}
			got := false
			for _, kv := range ecl.Elts {
				k, isKV := kv.(*ast.KeyValueExpr)
				if !isKV {
					ok = false
					continue
				}
				if id, isId := k.Key.(*ast.Ident); isId && id.Name == "Command" {
					s, isS := recStrLit(k.Value)
					if !isS {
						ok = false
					}
					out = append(out, s)
					got = true
				}
			}
			if !got {
				ok = false
			}
		}
	}
	return out, found && ok
}

func xRecovery(x *X) {
	const rec, errs, dbp, cli = "internal/recovery", "internal/errors", "internal/database", "internal/cli"
	var sb strings.Builder
	sb.WriteString("import WtfModel.Basic.Q\nnamespace Wtf.Gen.Recovery\n\n")
	okAll := true
	need := func(site string, ok bool, format string, a ...interface{}) bool {
		if !x.Assert("recovery:"+site, ok, format, a...) {
			okAll = false
		}
		return ok
	}

	// ---- errors.go: ErrorType constants -------------------------------------------------
	errTypeVal := map[string]string{}
	for _, f := range x.Pkg(errs) {
		for _, d := range f.Decls {
			gd, ok := d.(*ast.GenDecl)
			if !ok || gd.Tok != token.CONST {
				continue
			}
			for _, sp := range gd.Specs {
				vs := sp.(*ast.ValueSpec)
				if id, ok := vs.Type.(*ast.Ident); ok && id.Name == "ErrorType" && len(vs.Names) == 1 && len(vs.Values) == 1 {
					if s, ok := recStrLit(vs.Values[0]); ok {
						errTypeVal[vs.Names[0].Name] = s
					}
				}
			}
		}
	}
	need("error-types", len(errTypeVal) >= 2 && errTypeVal["ErrorTypeDatabase"] != "" && errTypeVal["ErrorTypePermission"] != "",
		"expected string constants of type ErrorType incl. ErrorTypeDatabase and ErrorTypePermission, got %v", errTypeVal)

	// ---- errors.go: AppError.Unwrap returns e.Cause; AppError has no Is method -------------
	unwrapOK, hasIs := false, false
	for _, f := range x.Pkg(errs) {
		for _, d := range f.Decls {
			fd, ok := d.(*ast.FuncDecl)
			if !ok || fd.Recv == nil || len(fd.Recv.List) != 1 {
				continue
			}
			if !strings.Contains(src(x, fd.Recv.List[0].Type), "AppError") {
				continue
			}
			if fd.Name.Name == "Unwrap" {
				if r := singleReturn(fd); r != nil && len(r.Results) == 1 {
					if _, n := selName(r.Results[0]); n == "Cause" {
						unwrapOK = true
					}
				}
			}
			if fd.Name.Name == "Is" || fd.Name.Name == "As" {
				hasIs = true
			}
		}
	}
	need("AppError.Unwrap", unwrapOK && !hasIs, "expected `func (e *AppError) Unwrap() error { return e.Cause }` and no Is/As method (unwrap=%v is/as=%v)", unwrapOK, hasIs)

	// ---- errors.go: constructors -> AppError type ---------------------------------------
	ctorType := func(name string) (string, bool) {
		fd := x.Func(errs, name)
		if fd == nil {
			return "", false
		}
		r := singleReturn(fd)
		if r == nil || len(r.Results) != 1 {
			return "", false
		}
		t, c, ok := newAppErrorArgs(innermostCall(r.Results[0]))
		if !ok || c != "cause" {
			return "", false
		}
		v, ok := errTypeVal[t]
		return v, ok
	}

	// ---- errors.go: decision table of NewDatabaseErrorWithContext -------------------------
	type row struct {
		needles []string
		ctor    string
		typ     string
	}
	var rows []row
	defType := ""
	nilType := ""
	if fd := x.Func(errs, "NewDatabaseErrorWithContext"); need("classify:func", fd != nil, "NewDatabaseErrorWithContext not found") {
		var sw *ast.SwitchStmt
		subject := ""
		shape := true
		for _, st := range fd.Body.List {
			switch v := st.(type) {
			case *ast.IfStmt: // if cause == nil { return NewAppError(ErrorTypeDatabase, ..., nil)... }
				if src(x, v.Cond) == "cause == nil" && len(v.Body.List) == 1 {
					if r, ok := v.Body.List[0].(*ast.ReturnStmt); ok && len(r.Results) == 1 {
						if t, _, ok := newAppErrorArgs(innermostCall(r.Results[0])); ok {
							nilType = errTypeVal[t]
						}
					}
				} else {
					shape = false
				}
			case *ast.AssignStmt: // errStr := cause.Error()
				if len(v.Lhs) == 1 && len(v.Rhs) == 1 && src(x, v.Rhs[0]) == "cause.Error()" {
					subject = src(x, v.Lhs[0])
				} else {
					shape = false
				}
			case *ast.SwitchStmt:
				sw = v
			default:
				shape = false
			}
		}
		need("classify:prologue", shape && subject != "" && nilType != "", "expected `if cause == nil {return NewAppError(..)}; errStr := cause.Error(); switch {..}` (subject=%q nilType=%q)", subject, nilType)
		if need("classify:switch", sw != nil && sw.Tag == nil && sw.Init == nil, "expected a tagless switch") {
			for _, cc := range sw.Body.List {
				c := cc.(*ast.CaseClause)
				if len(c.Body) != 1 {
					need("classify:case-body", false, "case with %d statements", len(c.Body))
					continue
				}
				r, ok := c.Body[0].(*ast.ReturnStmt)
				if !ok || len(r.Results) != 1 {
					need("classify:case-body", false, "case body is not a single return")
					continue
				}
				call := innermostCall(r.Results[0])
				if c.List == nil { // default
					t, cause, ok := newAppErrorArgs(call)
					if need("classify:default", ok && cause == "cause" && errTypeVal[t] != "", "default case must return NewAppError(ErrorTypeX, .., cause)") {
						defType = errTypeVal[t]
					}
					continue
				}
				if len(c.List) != 1 {
					need("classify:case-cond", false, "case with %d expressions", len(c.List))
					continue
				}
				nd, ok := containsNeedles(c.List[0], subject)
				if !need("classify:case-cond", ok && len(nd) > 0, "case condition is not a disjunction of strings.Contains(%s, <lit>): %s", subject, src(x, c.List[0])) {
					continue
				}
				ctor := ""
				if call != nil {
					if id, ok := call.Fun.(*ast.Ident); ok {
						ctor = id.Name
					}
				}
				argsOK := call != nil && len(call.Args) == 2 && src(x, call.Args[0]) == "path" && src(x, call.Args[1]) == "cause"
				typ, tok := ctorType(ctor)
				if need("classify:case-ctor", argsOK && tok, "case must return <Ctor>(path, cause) where Ctor returns NewAppError(ErrorTypeX, .., cause): %s", src(x, r)) {
					rows = append(rows, row{nd, ctor, typ})
				}
			}
			need("classify:has-default", defType != "", "switch has no recognised default case")
		}
	}
	sb.WriteString("/-- ordered cases of the `switch` in errors.NewDatabaseErrorWithContext:\n    (needles, any of which must occur in `cause.Error()`; Type of the *AppError built by that case) -/\n")
	sb.WriteString("def classifyCases : List (List String × String) := [")
	for i, r := range rows {
		if i > 0 {
			sb.WriteString(", ")
		}
		fmt.Fprintf(&sb, "(%s, %s)", leanStrList(r.needles), leanStr(r.typ))
	}
	sb.WriteString("]\n")
	fmt.Fprintf(&sb, "/-- constructors called by those cases (documentation) -/\ndef classifyCtors : List String := %s\n", leanStrList(func() []string {
		o := []string{}
		for _, r := range rows {
			o = append(o, r.ctor)
		}
		return o
	}()))
	fmt.Fprintf(&sb, "/-- Type of the *AppError built by the default case (cause kept) -/\ndef classifyDefault : String := %s\n", leanStr(defType))
	fmt.Fprintf(&sb, "/-- Type of the *AppError built for a nil cause -/\ndef classifyNil : String := %s\n\n", leanStr(nilType))

	// ---- loader.go ------------------------------------------------------------------------
	if fd := x.Func(dbp, "LoadDatabase"); need("LoadDatabase:func", fd != nil, "LoadDatabase not found") {
		wraps := 0
		ast.Inspect(fd.Body, func(n ast.Node) bool {
			is, ok := n.(*ast.IfStmt)
			if !ok || src(x, is.Cond) != "err != nil" || len(is.Body.List) != 1 {
				return true
			}
			if r, ok := is.Body.List[0].(*ast.ReturnStmt); ok && len(r.Results) == 2 && src(x, r.Results[0]) == "nil" {
				if c, ok := r.Results[1].(*ast.CallExpr); ok {
					if p, n := selName(c.Fun); p == "errors" && n == "NewDatabaseErrorWithContext" && len(c.Args) == 3 && src(x, c.Args[2]) == "err" {
						wraps++
					}
				}
			}
			return true
		})
		body := src(x, fd.Body)
		need("LoadDatabase:shape", wraps == 2 && strings.Contains(body, "os.ReadFile(filename)") && strings.Contains(body, "yaml.Unmarshal(data, &commands)"),
			"expected os.ReadFile and yaml.Unmarshal failures each returned as errors.NewDatabaseErrorWithContext(_, filename, err) (found %d)", wraps)
	}
	if fd := x.Func(dbp, "LoadDatabaseWithPersonal"); need("LoadDatabaseWithPersonal:func", fd != nil, "LoadDatabaseWithPersonal not found") {
		body := src(x, fd.Body)
		want := []string{
			"mainDB, err := LoadDatabase(mainDBPath) if err != nil { return nil, err }",
			"personalDB, err := LoadDatabase(personalDBPath) if err != nil {",
			"if os.IsNotExist(err) { return mainDB, nil }",
			"if dbErr, ok := err.(*errors.DatabaseError); ok { if os.IsNotExist(dbErr.Cause) { return mainDB, nil } }",
			"if appErr, ok := err.(*errors.AppError); ok { if appErr.Cause != nil && os.IsNotExist(appErr.Cause) { return mainDB, nil } }",
			"return nil, err }",
			"allCommands = append(allCommands, mainDB.Commands...) allCommands = append(allCommands, personalDB.Commands...)",
			"db := &Database{Commands: allCommands}",
		}
		// comments inside the body are part of the source text: strip them first
		body = stripComments(x, fd.Body)
		pos := 0
		for _, w := range want {
			i := strings.Index(body[pos:], w)
			if !need("LoadDatabaseWithPersonal:shape", i >= 0, "expected (in order) `%s`", w) {
				break
			}
			pos += i + len(w)
		}
	}

	// ---- recovery.go: DefaultRetryConfig ----------------------------------------------------
	defMax, defBase, defCap, defFactor := "", "", "", ""
	if fd := x.Func(rec, "DefaultRetryConfig"); need("DefaultRetryConfig:func", fd != nil, "DefaultRetryConfig not found") {
		if r := singleReturn(fd); r != nil && len(r.Results) == 1 {
			if cl, ok := r.Results[0].(*ast.CompositeLit); ok {
				for _, el := range cl.Elts {
					kv, ok := el.(*ast.KeyValueExpr)
					if !ok {
						continue
					}
					switch src(x, kv.Key) {
					case "MaxAttempts":
						if v, ok := durationNs(kv.Value); ok {
							defMax = strconv.FormatInt(v, 10)
						}
					case "BaseDelay":
						if v, ok := durationNs(kv.Value); ok {
							defBase = strconv.FormatInt(v, 10)
						}
					case "MaxDelay":
						if v, ok := durationNs(kv.Value); ok {
							defCap = strconv.FormatInt(v, 10)
						}
					case "BackoffFactor":
						if q, ok := floatLitQ(kv.Value); ok {
							defFactor = q
						}
					}
				}
			}
		}
		need("DefaultRetryConfig:values", defMax != "" && defBase != "" && defCap != "" && defFactor != "",
			"expected a RetryConfig literal with constant MaxAttempts/BaseDelay/MaxDelay/BackoffFactor (got %q %q %q %q)", defMax, defBase, defCap, defFactor)
	}
	fmt.Fprintf(&sb, "/-- recovery.DefaultRetryConfig() (durations in ns) -/\ndef defaultMaxAttempts : Int := %s\ndef defaultBaseDelay : Int := %s\ndef defaultMaxDelay : Int := %s\ndef defaultBackoffFactor : Wtf.Q := %s\n\n",
		orZero(defMax), orZero(defBase), orZero(defCap), func() string {
			if defFactor == "" {
				return "⟨0, 1⟩"
			}
			return defFactor
		}())

	// ---- recovery.go: loadWithRetry loop -------------------------------------------------------
	if fd := x.Func(rec, "loadWithRetry"); need("loadWithRetry:func", fd != nil, "loadWithRetry not found") {
		body := stripComments(x, fd.Body)
		body = strings.Replace(body, "verifObserveAttempt(attempt) ", "", 1) // the attempt observer hook is transparent
		want := "{ var lastErr error " +
			"for attempt := 1; attempt <= dr.retryConfig.MaxAttempts; attempt++ { " +
			"db, err := database.LoadDatabaseWithPersonal(primaryPath, personalPath) " +
			"if err == nil { return db, nil } " +
			"lastErr = err " +
			"if !dr.shouldRetry(err) { break } " +
			"if attempt < dr.retryConfig.MaxAttempts { delay := dr.calculateDelay(attempt) time.Sleep(delay) } } " +
			"return nil, lastErr }"
		need("loadWithRetry:shape", body == want, "retry loop differs from the modelled one.\n have: %s\n want: %s", body, want)
		// the hook sits at the top of the loop body (so it counts attempts exactly)
		hookOK := false
		ast.Inspect(fd.Body, func(n ast.Node) bool {
			if fs, ok := n.(*ast.ForStmt); ok && len(fs.Body.List) > 0 {
				hookOK = src(x, fs.Body.List[0]) == "verifObserveAttempt(attempt)"
			}
			return true
		})
		need("loadWithRetry:observer-first", hookOK, "verifObserveAttempt(attempt) must be the first statement of the retry loop body")
	}

	// ---- recovery.go: shouldRetry ---------------------------------------------------------------
	type sentinel struct {
		unwraps bool
		which   string
	}
	var sents []sentinel
	var noRetry []string
	if fd := x.Func(rec, "shouldRetry"); need("shouldRetry:func", fd != nil, "shouldRetry not found") {
		stdErrors := importAlias(x, rec, fd, "errors")
		appErrors := importAlias(x, rec, fd, "github.com/Vedant9500/WTF/internal/errors")
		shape := len(fd.Body.List) == 3
		var parseTest func(e ast.Expr) bool
		parseTest = func(e ast.Expr) bool {
			switch v := e.(type) {
			case *ast.ParenExpr:
				return parseTest(v.X)
			case *ast.BinaryExpr:
				return v.Op == token.LOR && parseTest(v.X) && parseTest(v.Y)
			case *ast.CallExpr:
				p, n := selName(v.Fun)
				switch {
				case stdErrors != "" && p == stdErrors && n == "Is" && len(v.Args) == 2 && src(x, v.Args[0]) == "err":
					switch src(x, v.Args[1]) {
					case "os.ErrNotExist":
						sents = append(sents, sentinel{true, "notExist"})
						return true
					case "os.ErrPermission":
						sents = append(sents, sentinel{true, "permission"})
						return true
					}
				case p == "os" && n == "IsNotExist" && len(v.Args) == 1 && src(x, v.Args[0]) == "err":
					sents = append(sents, sentinel{false, "notExist"})
					return true
				case p == "os" && n == "IsPermission" && len(v.Args) == 1 && src(x, v.Args[0]) == "err":
					sents = append(sents, sentinel{false, "permission"})
					return true
				}
			}
			return false
		}
		if shape {
			// 1: if <tests> { return false }
			is, ok := fd.Body.List[0].(*ast.IfStmt)
			shape = ok && is.Init == nil && is.Else == nil && len(is.Body.List) == 1 && src(x, is.Body.List[0]) == "return false" && parseTest(is.Cond)
		}
		if shape {
			// 2: if appErr, ok := err.(*errors.AppError); ok { switch appErr.Type { case A, B: return false } }
			is, ok := fd.Body.List[1].(*ast.IfStmt)
			shape = ok && is.Init != nil && src(x, is.Init) == "appErr, ok := err.(*"+appErrors+".AppError)" && src(x, is.Cond) == "ok" && len(is.Body.List) == 1
			if shape {
				sw, ok := is.Body.List[0].(*ast.SwitchStmt)
				shape = ok && sw.Tag != nil && src(x, sw.Tag) == "appErr.Type"
				if shape {
					for _, cc := range sw.Body.List {
						c := cc.(*ast.CaseClause)
						if c.List == nil || len(c.Body) != 1 || src(x, c.Body[0]) != "return false" {
							shape = false
							break
						}
						for _, e := range c.List {
							p, n := selName(e)
							if v, ok := errTypeVal[n]; ok && p == appErrors {
								noRetry = append(noRetry, v)
							} else {
								shape = false
							}
						}
					}
				}
			}
		}
		if shape {
			shape = src(x, fd.Body.List[2]) == "return true"
		}
		need("shouldRetry:shape", shape && len(sents) > 0,
			"expected `if <errors.Is(err, os.ErrX) | os.IsX(err)> || .. { return false }; if appErr, ok := err.(*errors.AppError); ok { switch appErr.Type { case ..: return false } }; return true`")
	}
	sb.WriteString("/-- the tests in shouldRetry's first `if` (any of them true => no retry):\n    (follows Unwrap chains? -- `errors.Is` does, `os.IsNotExist`/`os.IsPermission` do not;  which sentinel) -/\n")
	sb.WriteString("def noRetrySentinels : List (Bool × String) := [")
	for i, s := range sents {
		if i > 0 {
			sb.WriteString(", ")
		}
		fmt.Fprintf(&sb, "(%v, %s)", s.unwraps, leanStr(s.which))
	}
	sb.WriteString("]\n")
	fmt.Fprintf(&sb, "/-- AppError types for which shouldRetry answers false -/\ndef noRetryTypes : List String := %s\n\n", leanStrList(noRetry))

	// ---- recovery.go: calculateDelay ---------------------------------------------------------------
	if fd := x.Func(rec, "calculateDelay"); need("calculateDelay:func", fd != nil, "calculateDelay not found") {
		body := stripComments(x, fd.Body)
		want := "{ delay := float64(dr.retryConfig.BaseDelay) * math.Pow(dr.retryConfig.BackoffFactor, float64(attempt-1)) " +
			"if delay > float64(dr.retryConfig.MaxDelay) || math.IsNaN(delay) { delay = float64(dr.retryConfig.MaxDelay) } " +
			"return time.Duration(delay) }"
		need("calculateDelay:shape", body == want, "delay computation (cap incl. NaN guard) differs from the modelled one.\n have: %s\n want: %s", body, want)
	}

	// ---- recovery.go: NewDatabaseRecovery sanitises the configuration ---------------------------------
	if fd := x.Func(rec, "NewDatabaseRecovery"); need("NewDatabaseRecovery:func", fd != nil, "NewDatabaseRecovery not found") {
		body := stripComments(x, fd.Body)
		want := "{ if config.MaxAttempts < 1 { config.MaxAttempts = 1 } " +
			"if config.BaseDelay < 0 { config.BaseDelay = 0 } " +
			"if config.MaxDelay < 0 { config.MaxDelay = 0 } " +
			"if !(config.BackoffFactor >= 1) { config.BackoffFactor = 1 } " +
			"return &DatabaseRecovery{ retryConfig: config, } }"
		need("NewDatabaseRecovery:shape", body == want, "configuration sanitisation differs from the modelled one (Retry.sanitize).\n have: %s\n want: %s", body, want)
		// the only place a DatabaseRecovery is built outside tests
		lits := 0
		for _, f := range x.Pkg(rec) {
			ast.Inspect(f, func(n ast.Node) bool {
				if cl, ok := n.(*ast.CompositeLit); ok {
					if id, ok := cl.Type.(*ast.Ident); ok && id.Name == "DatabaseRecovery" {
						lits++
					}
				}
				return true
			})
		}
		need("NewDatabaseRecovery:only-constructor", lits == 1, "expected exactly one DatabaseRecovery{..} literal in package recovery (inside NewDatabaseRecovery), found %d", lits)
	}

	// ---- recovery.go: LoadDatabaseWithFallback ladder ---------------------------------------------------
	var ladder []string
	if fd := x.Func(rec, "LoadDatabaseWithFallback"); need("ladder:func", fd != nil, "LoadDatabaseWithFallback not found") {
		body := stripComments(x, fd.Body)
		need("ladder:primary", strings.HasPrefix(body, "{ db, err := dr.loadWithRetry(primaryPath, personalPath) if err == nil { return db, nil } primaryErr := err "),
			"expected `db, err := dr.loadWithRetry(primaryPath, personalPath); if err == nil { return db, nil }; primaryErr := err` first")
		var rng *ast.RangeStmt
		for _, st := range fd.Body.List {
			if as, ok := st.(*ast.AssignStmt); ok && len(as.Lhs) == 1 && src(x, as.Lhs[0]) == "fallbackStrategies" {
				if cl, ok := as.Rhs[0].(*ast.CompositeLit); ok {
					for _, el := range cl.Elts {
						ecl, ok := el.(*ast.CompositeLit)
						if !ok {
							continue
						}
						for _, kv := range ecl.Elts {
							k, ok := kv.(*ast.KeyValueExpr)
							if !ok || src(x, k.Key) != "fn" {
								continue
							}
							switch v := k.Value.(type) {
							case *ast.SelectorExpr:
								ladder = append(ladder, v.Sel.Name)
							case *ast.FuncLit:
								name := "?"
								if len(v.Body.List) == 1 {
									if r, ok := v.Body.List[0].(*ast.ReturnStmt); ok && len(r.Results) == 1 {
										if c, ok := r.Results[0].(*ast.CallExpr); ok {
											if _, n := selName(c.Fun); n != "" && len(c.Args) == 1 && src(x, c.Args[0]) == "primaryPath" {
												name = n
											}
										}
									}
								}
								ladder = append(ladder, name)
							default:
								ladder = append(ladder, "?")
							}
						}
					}
				}
			}
			if r, ok := st.(*ast.RangeStmt); ok {
				rng = r
			}
		}
		known := map[string]bool{"loadEmbeddedDatabase": true, "loadBackupDatabase": true, "createMinimalDatabase": true}
		lok := len(ladder) > 0
		for _, l := range ladder {
			lok = lok && known[l]
		}
		need("ladder:strategies", lok, "fallbackStrategies must list dr.loadEmbeddedDatabase / func(){return dr.loadBackupDatabase(primaryPath)} / dr.createMinimalDatabase, got %v", ladder)
		loopOK := false
		if rng != nil && src(x, rng.X) == "fallbackStrategies" && src(x, rng.Value) == "strategy" && len(rng.Body.List) == 1 {
			if is, ok := rng.Body.List[0].(*ast.IfStmt); ok && is.Init != nil && src(x, is.Init) == "db, err := strategy.fn()" && src(x, is.Cond) == "err == nil" && is.Else == nil && len(is.Body.List) > 0 {
				loopOK = src(x, is.Body.List[len(is.Body.List)-1]) == "return db, nil"
				for _, st := range is.Body.List[:len(is.Body.List)-1] {
					if _, isRet := st.(*ast.ReturnStmt); isRet {
						loopOK = false
					}
				}
			}
		}
		need("ladder:loop", loopOK, "expected `for _, strategy := range fallbackStrategies { if db, err := strategy.fn(); err == nil { ...; return db, nil } }`")
		last := fd.Body.List[len(fd.Body.List)-1]
		lastOK := false
		if r, ok := last.(*ast.ReturnStmt); ok && len(r.Results) == 2 && src(x, r.Results[0]) == "nil" {
			if t, c, ok := newAppErrorArgs(innermostCall(r.Results[1])); ok && c == "primaryErr" && t == "ErrorTypeDatabase" {
				lastOK = true
			} else if call := innermostCall(r.Results[1]); call != nil {
				if p, n := selName(call.Fun); p == "errors" && n == "NewAppError" && len(call.Args) == 3 && src(x, call.Args[0]) == "errors.ErrorTypeDatabase" && src(x, call.Args[2]) == "primaryErr" {
					lastOK = true
				}
			}
		}
		need("ladder:exhausted", lastOK, "expected a final `return nil, errors.NewAppError(errors.ErrorTypeDatabase, .., primaryErr)...`")
	}
	fmt.Fprintf(&sb, "/-- the fallback strategies of LoadDatabaseWithFallback, in the order they are tried -/\ndef ladder : List String := %s\n\n", leanStrList(ladder))

	// ---- recovery.go: embedded / minimal databases, backup ---------------------------------------------------
	var emb, mini []string
	alwaysOK := func(fd *ast.FuncDecl, v string) bool {
		r := singleReturn(fd)
		return r != nil && len(r.Results) == 2 && src(x, r.Results[1]) == "nil" &&
			strings.Join(strings.Fields(src(x, r.Results[0])), "") == "&database.Database{Commands:"+v+",}"
	}
	if fd := x.Func(rec, "loadEmbeddedDatabase"); need("embedded:func", fd != nil, "loadEmbeddedDatabase not found") {
		var ok bool
		emb, ok = commandStrings(fd, "essentialCommands")
		need("embedded:literal", ok, "essentialCommands is not a literal list of database.Command{Command: \"..\", ..}")
		need("embedded:always-succeeds", alwaysOK(fd, "essentialCommands"), "expected the single `return &database.Database{Commands: essentialCommands}, nil`")
	}
	if fd := x.Func(rec, "createMinimalDatabase"); need("minimal:func", fd != nil, "createMinimalDatabase not found") {
		var ok bool
		mini, ok = commandStrings(fd, "minimalCommands")
		need("minimal:literal", ok, "minimalCommands is not a literal list of database.Command{Command: \"..\", ..}")
		need("minimal:always-succeeds", alwaysOK(fd, "minimalCommands"), "expected the single `return &database.Database{Commands: minimalCommands}, nil`")
	}
	if fd := x.Func(rec, "loadBackupDatabase"); need("backup:func", fd != nil, "loadBackupDatabase not found") {
		body := stripComments(x, fd.Body)
		want := "{ backupPath := primaryPath + \".backup\" " +
			"if _, err := os.Stat(backupPath); os.IsNotExist(err) { return nil, fmt.Errorf(\"backup database not found at %s\", backupPath) } " +
			"return database.LoadDatabase(backupPath) }"
		need("backup:shape", body == want, "loadBackupDatabase differs from the modelled one.\n have: %s\n want: %s", body, want)
	}
	fmt.Fprintf(&sb, "/-- `Command` strings of the literal in loadEmbeddedDatabase -/\ndef embeddedCommands : List String := %s\n", leanStrList(emb))
	fmt.Fprintf(&sb, "/-- `Command` strings of the literal in createMinimalDatabase -/\ndef minimalCommands : List String := %s\n\n", leanStrList(mini))

	// ---- cli/search.go: the CLI's use -------------------------------------------------------------------------
	cliOK := false
	for _, f := range x.Pkg(cli) {
		s := src(x, f)
		if strings.Contains(s, "dbRecovery := recovery.NewDatabaseRecovery(recovery.DefaultRetryConfig())") &&
			strings.Contains(s, "db, err := dbRecovery.LoadDatabaseWithFallback(dbFilePath, personalDBPath)") {
			cliOK = true
		}
	}
	need("cli:default-config", cliOK, "expected internal/cli to call recovery.NewDatabaseRecovery(recovery.DefaultRetryConfig()).LoadDatabaseWithFallback(dbFilePath, personalDBPath)")

	sb.WriteString("end Wtf.Gen.Recovery\n")
	x.WriteLean("Recovery", sb.String())
	x.Assert("recovery:all", okAll, "one or more recovery shape assertions failed")
	x.Fact("recovery.classifyCases", rows2fact(rows))
	x.Fact("recovery.ladder", ladder)
	x.Fact("recovery.noRetryTypes", noRetry)
	x.Fact("recovery.noRetrySentinels", fmt.Sprint(sents))
	x.Fact("recovery.default", map[string]string{"maxAttempts": defMax, "baseDelay": defBase, "maxDelay": defCap, "factor": defFactor})
	x.Fact("recovery.embedded", emb)
	x.Fact("recovery.minimal", mini)
}

func rows2fact(rows interface{}) string { return fmt.Sprintf("%v", rows) }

func orZero(s string) string {
	if s == "" {
		return "0"
	}
	return s
}

// stripComments renders a node's source without comments, white space normalised.
func stripComments(x *X, n ast.Node) string {
	p1, p2 := x.Fset.Position(n.Pos()), x.Fset.Position(n.End())
	data := fileBytes(x, p1.Filename)
	if data == nil {
		return ""
	}
	s := string(data[p1.Offset:p2.Offset])
	var sb strings.Builder
	inStr := byte(0)
	for i := 0; i < len(s); i++ {
		c := s[i]
		if inStr != 0 {
			sb.WriteByte(c)
			if c == '\\' && inStr != '`' && i+1 < len(s) {
				i++
				sb.WriteByte(s[i])
			} else if c == inStr {
				inStr = 0
			}
			continue
		}
		if c == '"' || c == '`' || c == '\'' {
			inStr = c
			sb.WriteByte(c)
			continue
		}
		if c == '/' && i+1 < len(s) && s[i+1] == '/' {
			for i < len(s) && s[i] != '\n' {
				i++
			}
			sb.WriteByte('\n')
			continue
		}
		if c == '/' && i+1 < len(s) && s[i+1] == '*' {
			i += 2
			for i+1 < len(s) && !(s[i] == '*' && s[i+1] == '/') {
				i++
			}
			i++
			sb.WriteByte(' ')
			continue
		}
		sb.WriteByte(c)
	}
	return strings.Join(strings.Fields(sb.String()), " ")
}
