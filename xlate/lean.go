package main

import (
	"fmt"
	"go/constant"
	"math/big"
	"strings"
)

// leanStr renders a Go string as a Lean string literal (ASCII only is expected in tables).
func leanStr(s string) string {
	var sb strings.Builder
	sb.WriteByte('"')
	for _, r := range s {
		switch {
		case r == '"':
			sb.WriteString("\\\"")
		case r == '\\':
			sb.WriteString("\\\\")
		case r == '\n':
			sb.WriteString("\\n")
		case r == '\t':
			sb.WriteString("\\t")
		case r < 0x20 || r == 0x7f:
			fmt.Fprintf(&sb, "\\x%02x", r)
		default:
			sb.WriteRune(r)
		}
	}
	sb.WriteByte('"')
	return sb.String()
}

func leanStrList(xs []string) string {
	q := make([]string, len(xs))
	for i, s := range xs {
		q[i] = leanStr(s)
	}
	return "[" + strings.Join(q, ", ") + "]"
}

// leanQ renders an exact constant as a Wtf.Q literal ⟨num, den⟩.
func leanQ(v constant.Value) (string, bool) {
	v = constant.ToFloat(v)
	if v.Kind() != constant.Float && v.Kind() != constant.Int {
		return "", false
	}
	var r *big.Rat
	switch t := constant.Val(v).(type) {
	case *big.Rat:
		r = t
	case *big.Float:
		r, _ = t.Rat(nil)
	case int64:
		r = big.NewRat(t, 1)
	case *big.Int:
		r = new(big.Rat).SetInt(t)
	default:
		return "", false
	}
	if r == nil {
		return "", false
	}
	return fmt.Sprintf("⟨%s, %s⟩", r.Num().String(), r.Denom().String()), true
}
