package main

import (
	"fmt"
	"go/ast"
	"go/printer"
	"go/token"
	"sort"
	"strings"
)

// History (C16): constants and code-shape facts of internal/history/history.go and of its two CLI
// call sites.
//
//	newDefault      the literal in `if maxSize <= 0 { maxSize = N }` of NewSearchHistory
//	(assert)        Load decodes the file into a fresh `var loaded SearchHistory`, returns on any Unmarshal
//	                error before touching the receiver, then `sh.Entries = loaded.Entries`
//	loadGuard       the file's max_size is taken only under `if loaded.MaxSize > 0`
//	loadFallback    the literal N of a final `if sh.MaxSize <= 0 { sh.MaxSize = N }` (none when absent)
//	cliMaxSizes     the second argument of every history.NewSearchHistory(...) call in internal/cli
//
// `loadGuard` / `loadFallback` are *facts*, not assertions: when neither protection is present the
// generated values are `false` / `none` and the theorems that need them (Props/C16.lean,
// `gen_params_ok`) stop checking.
func init() {
	register("history", func(x *X) {
		const pkg = "internal/history"
		// ---- NewSearchHistory
		fd := x.Func(pkg, "NewSearchHistory")
		if !x.Assert("history:NewSearchHistory", fd != nil && fd.Body != nil, "function NewSearchHistory not found") {
			return
		}
		newDefault := ""
		for _, st := range fd.Body.List {
			if v, ok := histNonPositiveDefault(st, func(e ast.Expr) bool { return histIsIdent(e, "maxSize") }); ok {
				newDefault = v
			}
		}
		x.Assert("history:new-default", newDefault != "", "expected `if maxSize <= 0 { maxSize = <int> }` in NewSearchHistory")
		// the constructor stores the (normalised) parameter: MaxSize: maxSize
		storesParam := false
		ast.Inspect(fd.Body, func(n ast.Node) bool {
			if kv, ok := n.(*ast.KeyValueExpr); ok && histIsIdent(kv.Key, "MaxSize") && histIsIdent(kv.Value, "maxSize") {
				storesParam = true
			}
			return true
		})
		x.Assert("history:new-stores-maxsize", storesParam, "expected `MaxSize: maxSize` in the composite literal returned by NewSearchHistory")

		// ---- Load
		ld := x.Func(pkg, "Load")
		if !x.Assert("history:Load", ld != nil && ld.Body != nil, "method Load not found") {
			return
		}
		recv := histRecvName(ld)
		isShMax := func(e ast.Expr) bool { return histIsSel(e, recv, "MaxSize") }
		// (1) `var <loaded> SearchHistory`  (2) `if err := json.Unmarshal(data, &<loaded>); err != nil { return ... }`
		// (3) `sh.Entries = <loaded>.Entries`: the file is decoded into a fresh value and taken over only on success
		loadedVar, declAt, unmarshalAt, takeAt := "", -1, -1, -1
		for i, st := range ld.Body.List {
			switch t := st.(type) {
			case *ast.DeclStmt:
				if gd, ok := t.Decl.(*ast.GenDecl); ok && gd.Tok == token.VAR && len(gd.Specs) == 1 {
					if vs, ok := gd.Specs[0].(*ast.ValueSpec); ok && len(vs.Names) == 1 && len(vs.Values) == 0 && histIsIdent(vs.Type, "SearchHistory") {
						loadedVar, declAt = vs.Names[0].Name, i
					}
				}
			case *ast.IfStmt:
				if as, ok := t.Init.(*ast.AssignStmt); ok && len(as.Rhs) == 1 && loadedVar != "" {
					if call, ok := as.Rhs[0].(*ast.CallExpr); ok && histIsSel(call.Fun, "json", "Unmarshal") && len(call.Args) == 2 {
						if u, ok := call.Args[1].(*ast.UnaryExpr); ok && u.Op == token.AND && histIsIdent(u.X, loadedVar) &&
							histIsErrNotNil(t.Cond) && len(t.Body.List) == 1 {
							if _, ok := t.Body.List[0].(*ast.ReturnStmt); ok {
								unmarshalAt = i
							}
						}
					}
				}
			case *ast.AssignStmt:
				if t.Tok == token.ASSIGN && len(t.Lhs) == 1 && len(t.Rhs) == 1 && histIsSel(t.Lhs[0], recv, "Entries") &&
					loadedVar != "" && histIsSel(t.Rhs[0], loadedVar, "Entries") {
					takeAt = i
				}
			}
		}
		fresh := declAt >= 0 && unmarshalAt > declAt && takeAt > unmarshalAt
		x.Assert("history:Load-decodes-into-fresh-value", fresh,
			"expected `var loaded SearchHistory; if err := json.Unmarshal(data, &loaded); err != nil { return ... }; sh.Entries = loaded.Entries` in Load")
		// nothing of the receiver may be assigned before the error check
		early := false
		if fresh {
			for _, st := range ld.Body.List[:unmarshalAt] {
				ast.Inspect(st, func(n ast.Node) bool {
					if as, ok := n.(*ast.AssignStmt); ok {
						for _, l := range as.Lhs {
							if se, ok := l.(*ast.SelectorExpr); ok && histIsIdent(se.X, recv) {
								early = true
							}
						}
					}
					return true
				})
			}
		}
		x.Assert("history:Load-receiver-untouched-before-error-check", fresh && !early, "an assignment to a receiver field precedes the Unmarshal error check in Load")
		// max_size handling after the take-over: every statement that assigns sh.MaxSize must be one of
		//   (a) `if loaded.MaxSize > 0 { sh.MaxSize = loaded.MaxSize }`  -> loadGuard = true
		//   (a') `sh.MaxSize = loaded.MaxSize`                            -> loadGuard = false
		//   (b) `if sh.MaxSize <= 0 { sh.MaxSize = N }` after (a)/(a')    -> loadFallback = some N
		guard, haveTake, fallback, shapeOK := false, false, "", true
		if fresh {
			isLoadedMax := func(e ast.Expr) bool { return histIsSel(e, loadedVar, "MaxSize") }
			for _, st := range ld.Body.List[unmarshalAt+1:] {
				assigns := false
				ast.Inspect(st, func(n ast.Node) bool {
					if as, ok := n.(*ast.AssignStmt); ok {
						for _, l := range as.Lhs {
							if isShMax(l) {
								assigns = true
							}
						}
					}
					return true
				})
				if !assigns {
					continue
				}
				switch t := st.(type) {
				case *ast.AssignStmt:
					if !haveTake && fallback == "" && t.Tok == token.ASSIGN && len(t.Lhs) == 1 && len(t.Rhs) == 1 && isShMax(t.Lhs[0]) && isLoadedMax(t.Rhs[0]) {
						haveTake, guard = true, false
						continue
					}
					shapeOK = false
				case *ast.IfStmt:
					if v, ok := histNonPositiveDefault(t, isShMax); ok && haveTake && fallback == "" {
						fallback = v
						continue
					}
					if !haveTake && fallback == "" && t.Init == nil && t.Else == nil && len(t.Body.List) == 1 {
						be, ok1 := t.Cond.(*ast.BinaryExpr)
						as, ok2 := t.Body.List[0].(*ast.AssignStmt)
						if ok1 && ok2 && be.Op == token.GTR && isLoadedMax(be.X) && histIsZero(be.Y) &&
							as.Tok == token.ASSIGN && len(as.Lhs) == 1 && len(as.Rhs) == 1 && isShMax(as.Lhs[0]) && isLoadedMax(as.Rhs[0]) {
							haveTake, guard = true, true
							continue
						}
					}
					shapeOK = false
				default:
					shapeOK = false
				}
			}
		}
		x.Assert("history:Load-max-size-shape", fresh && shapeOK && haveTake,
			"expected Load to set sh.MaxSize only by `[if loaded.MaxSize > 0] sh.MaxSize = loaded.MaxSize` optionally followed by `if sh.MaxSize <= 0 { sh.MaxSize = <int> }`")
		fallbackLean := "none"
		if fallback != "" {
			fallbackLean = "some " + fallback
		}

		// ---- AddEntry: the two expressions the model mirrors (reported as facts for the evidence file; behaviour is
		// tied by correspondence, so a semantically equivalent rewrite does not alarm)
		ad := x.Func(pkg, "AddEntry")
		x.Assert("history:AddEntry", ad != nil && ad.Body != nil, "method AddEntry not found")
		trim := ""
		if ad != nil && ad.Body != nil {
			ast.Inspect(ad.Body, func(n ast.Node) bool {
				if se, ok := n.(*ast.SliceExpr); ok {
					trim = histExprString(x, se)
				}
				return true
			})
		}

		// ---- CLI call sites
		var cli []string
		bad := []string{}
		for fname, f := range x.Pkg("internal/cli") {
			ast.Inspect(f, func(n ast.Node) bool {
				call, ok := n.(*ast.CallExpr)
				if !ok || !histIsSel(call.Fun, "history", "NewSearchHistory") || len(call.Args) != 2 {
					return true
				}
				if lit, ok := call.Args[1].(*ast.BasicLit); ok && lit.Kind == token.INT {
					cli = append(cli, lit.Value)
				} else {
					bad = append(bad, fname)
				}
				return true
			})
		}
		sort.Strings(cli)
		x.Assert("history:cli-max-size-literals", len(cli) > 0 && len(bad) == 0,
			"expected every history.NewSearchHistory(path, <int literal>) call in internal/cli to pass an integer literal (found %d literal calls, non-literal in %v)", len(cli), bad)

		// ---- the views: `if limit <= 0 { limit = N }` in GetRecentQueries and GetTopQueries, the same N (a value, not a shape:
		// the property does not say how many rows "the default" is)
		viewDefaults := map[string]string{}
		viewOK := true
		for _, fn := range []string{"GetRecentQueries", "GetTopQueries"} {
			vf := x.Func(pkg, fn)
			got := ""
			if vf != nil && vf.Body != nil {
				for _, st := range vf.Body.List {
					ifs, ok := st.(*ast.IfStmt)
					if !ok || ifs.Else != nil || ifs.Init != nil || len(ifs.Body.List) != 1 {
						continue
					}
					be, ok := ifs.Cond.(*ast.BinaryExpr)
					if !ok || be.Op != token.LEQ || !histIsIdent(be.X, "limit") {
						continue
					}
					if z, ok := be.Y.(*ast.BasicLit); !ok || z.Value != "0" {
						continue
					}
					as, ok := ifs.Body.List[0].(*ast.AssignStmt)
					if !ok || as.Tok != token.ASSIGN || len(as.Lhs) != 1 || len(as.Rhs) != 1 || !histIsIdent(as.Lhs[0], "limit") {
						continue
					}
					if lit, ok := as.Rhs[0].(*ast.BasicLit); ok && lit.Kind == token.INT {
						got = lit.Value
					}
				}
			}
			if got == "" || got == "0" {
				viewOK = false
			}
			viewDefaults[fn] = got
		}
		x.Assert("history:view-default", viewOK, "expected `if limit <= 0 { limit = N }` with a positive literal N in GetRecentQueries and in GetTopQueries (got %v)", viewDefaults)

		if newDefault == "" || !viewOK {
			return
		}
		var sb strings.Builder
		sb.WriteString("namespace Wtf.Gen.History\n\n")
		fmt.Fprintf(&sb, "/-- GetRecentQueries: rows returned for a non-positive limit -/\ndef recentDefault : Nat := %s\n\n", viewDefaults["GetRecentQueries"])
		fmt.Fprintf(&sb, "/-- GetTopQueries: rows returned for a non-positive limit -/\ndef topDefault : Nat := %s\n\n", viewDefaults["GetTopQueries"])
		fmt.Fprintf(&sb, "/-- NewSearchHistory: value substituted for a non-positive requested maximum -/\ndef newDefault : Int := %s\n\n", newDefault)
		fmt.Fprintf(&sb, "/-- Load takes over the file's max_size only under `if loaded.MaxSize > 0` -/\ndef loadGuard : Bool := %v\n\n", guard)
		fmt.Fprintf(&sb, "/-- Load's final `if sh.MaxSize <= 0 { sh.MaxSize = N }` (none when absent) -/\ndef loadFallback : Option Int := %s\n\n", fallbackLean)
		fmt.Fprintf(&sb, "/-- maximum passed by every history.NewSearchHistory call in internal/cli -/\ndef cliMaxSizes : List Int := [%s]\n\n", strings.Join(cli, ", "))
		sb.WriteString("end Wtf.Gen.History\n")
		x.WriteLean("History", sb.String())
		x.Fact("history.newDefault", newDefault)
		x.Fact("history.loadGuard", guard)
		x.Fact("history.loadFallback", fallback)
		x.Fact("history.cliMaxSizes", cli)
		x.Fact("history.trimExpr", trim)
	})
}

func histIsIdent(e ast.Expr, name string) bool {
	id, ok := e.(*ast.Ident)
	return ok && id.Name == name
}

func histIsSel(e ast.Expr, pkg, name string) bool {
	s, ok := e.(*ast.SelectorExpr)
	return ok && s.Sel.Name == name && histIsIdent(s.X, pkg)
}

func histRecvName(fd *ast.FuncDecl) string {
	if fd.Recv != nil && len(fd.Recv.List) == 1 && len(fd.Recv.List[0].Names) == 1 {
		return fd.Recv.List[0].Names[0].Name
	}
	return "_"
}

func histIsZero(e ast.Expr) bool {
	lit, ok := e.(*ast.BasicLit)
	return ok && lit.Value == "0"
}

// histIsErrNotNil: `err != nil`
func histIsErrNotNil(e ast.Expr) bool {
	be, ok := e.(*ast.BinaryExpr)
	return ok && be.Op == token.NEQ && histIsIdent(be.X, "err") && histIsIdent(be.Y, "nil")
}

// histIsLeqZero: `<target> <= 0`
func histIsLeqZero(e ast.Expr, target func(ast.Expr) bool) bool {
	be, ok := e.(*ast.BinaryExpr)
	if !ok || be.Op != token.LEQ || !target(be.X) {
		return false
	}
	lit, ok := be.Y.(*ast.BasicLit)
	return ok && lit.Value == "0"
}

// histNonPositiveDefault recognises `if <target> <= 0 { <target> = <int literal> }` and returns the literal.
func histNonPositiveDefault(st ast.Stmt, target func(ast.Expr) bool) (string, bool) {
	is, ok := st.(*ast.IfStmt)
	if !ok || is.Init != nil || is.Else != nil || !histIsLeqZero(is.Cond, target) || len(is.Body.List) != 1 {
		return "", false
	}
	as, ok := is.Body.List[0].(*ast.AssignStmt)
	if !ok || as.Tok != token.ASSIGN || len(as.Lhs) != 1 || len(as.Rhs) != 1 || !target(as.Lhs[0]) {
		return "", false
	}
	lit, ok := as.Rhs[0].(*ast.BasicLit)
	if !ok || lit.Kind != token.INT {
		return "", false
	}
	return lit.Value, true
}

func histExprString(x *X, e ast.Expr) string {
	var sb strings.Builder
	if err := printer.Fprint(&sb, x.Fset, e); err != nil {
		return ""
	}
	return sb.String()
}
