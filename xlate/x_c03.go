package main

import (
	"bytes"
	"fmt"
	"go/ast"
	"go/printer"
	"go/token"
	"strings"
)

// C03: code-shape facts the state-machine model (lean/WtfModel/Model/DbState.lean) and the term
// selection theorems depend on:
//   - SearchUniversal starts with `if db.uIndex == nil || db.uIndex.N != len(db.Commands) { ... }`
//     and that block rebuilds the index AND the TF-IDF re-ranker;
//   - UpdateDatabase assigns Commands and rebuilds both;
//   - LoadDatabase / LoadDatabaseWithPersonal build both; the merge appends main then personal;
//   - default term cap (10), protected prefix (4), minimal token length (2).
func init() {
	register("d_c03", func(x *X) {
		src := func(n ast.Node) string {
			var b bytes.Buffer
			printer.Fprint(&b, x.Fset, n)
			return strings.Join(strings.Fields(b.String()), " ")
		}
		// names of methods called unconditionally, as plain statements `recv.M()` / `a.b.M()` directly in
		// a block; a helper of the same package called that way is followed (two levels), so moving the
		// two rebuild calls into a common helper keeps the fact.
		var callsD func(list []ast.Stmt, depth int) []string
		callsD = func(list []ast.Stmt, depth int) []string {
			var out []string
			for _, st := range list {
				if es, ok := st.(*ast.ExprStmt); ok {
					if ce, ok := es.X.(*ast.CallExpr); ok {
						name := ""
						switch f := ce.Fun.(type) {
						case *ast.SelectorExpr:
							name = f.Sel.Name
						case *ast.Ident:
							name = f.Name
						}
						if name == "" {
							continue
						}
						out = append(out, name)
						if depth > 0 && name != "BuildUniversalIndex" && name != "buildTFIDFSearcher" {
							if fd := x.Func("internal/database", name); fd != nil && fd.Body != nil {
								out = append(out, callsD(fd.Body.List, depth-1)...)
							}
						}
					}
				}
			}
			return out
		}
		calls := func(list []ast.Stmt) []string { return callsD(list, 2) }
		has := func(xs []string, w string) bool {
			for _, s := range xs {
				if s == w {
					return true
				}
			}
			return false
		}
		both := func(xs []string) bool { return has(xs, "BuildUniversalIndex") && has(xs, "buildTFIDFSearcher") }
		b2l := func(b bool) string {
			if b {
				return "true"
			}
			return "false"
		}

		lazyBoth, lazyCond := false, false
		termCap, preserve, minTok := "", "", ""
		if fd := x.Func("internal/database", "SearchUniversal"); x.Assert("c03:SearchUniversal", fd != nil, "SearchUniversal not found") {
			if len(fd.Body.List) > 0 {
				if is, ok := fd.Body.List[0].(*ast.IfStmt); ok && is.Init == nil && is.Else == nil {
					lazyCond = src(is.Cond) == "db.uIndex == nil || db.uIndex.N != len(db.Commands)"
					lazyBoth = both(calls(is.Body.List))
				}
			}
			ast.Inspect(fd.Body, func(n ast.Node) bool {
				is, ok := n.(*ast.IfStmt)
				if !ok || src(is.Cond) != "termsCap <= 0" || len(is.Body.List) != 1 {
					return true
				}
				if as, ok := is.Body.List[0].(*ast.AssignStmt); ok && len(as.Rhs) == 1 && src(as.Lhs[0]) == "termsCap" {
					if bl, ok := as.Rhs[0].(*ast.BasicLit); ok && bl.Kind == token.INT {
						termCap = bl.Value
					}
				}
				return true
			})
		}
		x.Assert("c03:lazy-rebuild-condition", lazyCond, "SearchUniversal must start with `if db.uIndex == nil || db.uIndex.N != len(db.Commands) {`")
		x.Assert("c03:lazy-rebuild-both", lazyBoth, "the lazy rebuild must call BuildUniversalIndex and buildTFIDFSearcher")
		x.Assert("c03:term-cap", termCap != "", "expected `if termsCap <= 0 { termsCap = <int> }` in SearchUniversal")

		if fd := x.Func("internal/database", "selectTopTerms"); x.Assert("c03:selectTopTerms", fd != nil, "selectTopTerms not found") {
			ast.Inspect(fd.Body, func(n ast.Node) bool {
				as, ok := n.(*ast.AssignStmt)
				if !ok || len(as.Lhs) != 1 || len(as.Rhs) != 1 || src(as.Lhs[0]) != "preserveCount" {
					return true
				}
				if ce, ok := as.Rhs[0].(*ast.CallExpr); ok && src(ce.Fun) == "utils.Min" && len(ce.Args) == 2 && src(ce.Args[1]) == "len(terms)" {
					if bl, ok := ce.Args[0].(*ast.BasicLit); ok && bl.Kind == token.INT {
						preserve = bl.Value
					}
				}
				return true
			})
		}
		x.Assert("c03:preserve-count", preserve != "", "expected `preserveCount := utils.Min(<int>, len(terms))` in selectTopTerms")

		if fd := x.Func("internal/database", "normalizeAndTokenize"); x.Assert("c03:normalizeAndTokenize", fd != nil, "normalizeAndTokenize not found") {
			ast.Inspect(fd.Body, func(n ast.Node) bool {
				is, ok := n.(*ast.IfStmt)
				if !ok {
					return true
				}
				if be, ok := is.Cond.(*ast.BinaryExpr); ok && be.Op == token.LSS && src(be.X) == "len(w)" {
					if bl, ok := be.Y.(*ast.BasicLit); ok && bl.Kind == token.INT {
						minTok = bl.Value
					}
				}
				return true
			})
		}
		x.Assert("c03:min-token-len", minTok != "", "expected `if len(w) < <int> { continue }` in normalizeAndTokenize")

		updBoth := false
		if fd := x.Func("internal/database", "UpdateDatabase"); x.Assert("c03:UpdateDatabase", fd != nil, "UpdateDatabase not found") {
			assigns := false
			if len(fd.Body.List) > 0 {
				if as, ok := fd.Body.List[0].(*ast.AssignStmt); ok && src(as) == "cdb.Database.Commands = commands" {
					assigns = true
				}
			}
			updBoth = assigns && both(calls(fd.Body.List))
		}
		x.Assert("c03:update-rebuilds-both", updBoth, "UpdateDatabase must assign Commands and call BuildUniversalIndex and buildTFIDFSearcher")

		loadBoth, mergeBoth, mergeOrder := false, false, false
		if fd := x.Func("internal/database", "LoadDatabase"); x.Assert("c03:LoadDatabase", fd != nil, "LoadDatabase not found") {
			loadBoth = both(calls(fd.Body.List)) && strings.Contains(src(fd.Body), "db := &Database{Commands: commands}")
		}
		if fd := x.Func("internal/database", "LoadDatabaseWithPersonal"); x.Assert("c03:LoadDatabaseWithPersonal", fd != nil, "LoadDatabaseWithPersonal not found") {
			s := src(fd.Body)
			mergeBoth = both(calls(fd.Body.List)) && strings.Contains(s, "db := &Database{Commands: allCommands}")
			i := strings.Index(s, "allCommands = append(allCommands, mainDB.Commands...)")
			j := strings.Index(s, "allCommands = append(allCommands, personalDB.Commands...)")
			mergeOrder = i >= 0 && j > i
		}
		x.Assert("c03:load-builds-both", loadBoth, "LoadDatabase must build the index and the re-ranker over the loaded commands")
		x.Assert("c03:merge-builds-both", mergeBoth, "LoadDatabaseWithPersonal must build the index and the re-ranker over the merged commands")
		x.Assert("c03:merge-order", mergeOrder, "LoadDatabaseWithPersonal must append main then personal commands")

		num := func(s string) string {
			if s == "" {
				return "0"
			}
			return s
		}
		var sb strings.Builder
		sb.WriteString("namespace Wtf.Gen.C03\n\n")
		fmt.Fprintf(&sb, "/-- `if termsCap <= 0 { termsCap = N }` in SearchUniversal -/\ndef termCap : Nat := %s\n", num(termCap))
		fmt.Fprintf(&sb, "/-- `utils.Min(N, len(terms))` in selectTopTerms -/\ndef preserve : Nat := %s\n", num(preserve))
		fmt.Fprintf(&sb, "/-- `len(w) < N` in normalizeAndTokenize -/\ndef minTokenLen : Nat := %s\n", num(minTok))
		fmt.Fprintf(&sb, "/-- SearchUniversal starts with `if db.uIndex == nil || db.uIndex.N != len(db.Commands)` -/\ndef lazyRebuildCondition : Bool := %s\n", b2l(lazyCond))
		fmt.Fprintf(&sb, "/-- ... whose body rebuilds the index and the TF-IDF re-ranker -/\ndef lazyRebuildBoth : Bool := %s\n", b2l(lazyBoth))
		fmt.Fprintf(&sb, "def updateRebuildsBoth : Bool := %s\n", b2l(updBoth))
		fmt.Fprintf(&sb, "def loadBuildsBoth : Bool := %s\n", b2l(loadBoth))
		fmt.Fprintf(&sb, "def mergeBuildsBoth : Bool := %s\n", b2l(mergeBoth))
		fmt.Fprintf(&sb, "def mergeMainThenPersonal : Bool := %s\n", b2l(mergeOrder))
		sb.WriteString("\nend Wtf.Gen.C03\n")
		x.WriteLean("C03", sb.String())
		x.Fact("c03", map[string]string{"termCap": termCap, "preserve": preserve, "minTokenLen": minTok,
			"lazyRebuildBoth": b2l(lazyBoth), "updateRebuildsBoth": b2l(updBoth), "loadBuildsBoth": b2l(loadBoth), "mergeBuildsBoth": b2l(mergeBoth)})
	})
}
