package main

import (
	"fmt"
	"go/ast"
	"go/token"
	"reflect"
	"regexp"
	"strconv"
	"strings"
)

// KeyJson (property C05, key text): what the model of the JSON text hashed by generateCacheKey
// (lean/WtfModel/Model/KeyJson.lean) takes from the source in addition to Gen/CacheKey.lean
// (which carries the fields of cache.SearchOptions in declaration order with Go type, json name and omitempty flag):
//
//	keyStruct     fields of the anonymous key struct literal in generateCacheKey: (name, Go type, json name, omitempty)
//	queryName / optionsName   json names of its two fields
//	queryFrom / optionsFrom   the expressions stored in them (the normalised query, the options parameter)
//
// Assertion sites:
//
//	keyjson:keyStruct    `keyData := struct{ Query string `json:"query"`; Options SearchOptions `json:"options"` }{Query: nq, Options: options}`:
//	                     exactly two named fields, a string and the SearchOptions of this package, in this order, tags with a
//	                     json name and no option
//	keyjson:marshal      the text is produced by `jsonData, err := json.Marshal(keyData)` with json = the standard "encoding/json";
//	                     jsonData is assigned nowhere else but in the Marshal-error fallback; it is what sha256.Sum256 hashes;
//	                     no other encoding/json entry point (NewEncoder, MarshalIndent, HTMLEscape ...) is used in the function
//	keyjson:no-custom-marshalers   package cache declares no MarshalJSON / MarshalText method (the encoder is the reflective one)
//	keyjson:json-names   every json name of the key struct and of cache.SearchOptions is non-empty and consists of ASCII
//	                     letters, digits and `_` (written unescaped; no `"` inside), and the names are pairwise distinct
//	                     even after case folding
//	keyjson:kinds        every field of cache.SearchOptions is of one of the six kinds the text is modelled for, spelled with
//	                     the predeclared identifiers, and none of them is redeclared in package cache
var c05kjPlainName = regexp.MustCompile(`^[A-Za-z0-9_]+$`)

type c05kjField struct {
	Name, Type, JSON string
	Omit             bool
	Opts             []string
}

func c05kjFields(st *ast.StructType) (out []c05kjField, bad []string) {
	for _, f := range st.Fields.List {
		t := c05ExprStr(f.Type)
		if len(f.Names) == 0 {
			bad = append(bad, "embedded field "+t)
			continue
		}
		tag := ""
		hasTag := false
		if f.Tag != nil {
			if uq, err := strconv.Unquote(f.Tag.Value); err == nil {
				tag, hasTag = reflect.StructTag(uq).Lookup("json")
			} else {
				bad = append(bad, "unreadable tag "+f.Tag.Value)
			}
		}
		parts := strings.Split(tag, ",")
		for _, n := range f.Names {
			kf := c05kjField{Name: n.Name, Type: t, JSON: parts[0], Opts: parts[1:]}
			if !hasTag || kf.JSON == "" {
				kf.JSON = n.Name
			}
			for _, p := range parts[1:] {
				if p == "omitempty" {
					kf.Omit = true
				}
			}
			out = append(out, kf)
		}
	}
	return
}

func init() {
	register("keyjson", func(x *X) {
		var keyStruct []c05kjField
		queryFrom, optionsFrom := "", ""

		fd := c05Method(x, c05CachePkg, "SearchCache", "generateCacheKey")

		// ---- the anonymous key struct --------------------------------------------------------------
		{
			s := &c05CkSite{x: x, site: "keyjson:keyStruct"}
			if fd == nil || fd.Body == nil {
				s.fail("(*SearchCache).generateCacheKey not found")
			} else {
				var lits []*ast.CompositeLit
				for _, st := range fd.Body.List {
					as, ok := st.(*ast.AssignStmt)
					if !ok || as.Tok != token.DEFINE || len(as.Lhs) != 1 || len(as.Rhs) != 1 || c05ExprStr(as.Lhs[0]) != "keyData" {
						continue
					}
					if cl, ok := as.Rhs[0].(*ast.CompositeLit); ok {
						lits = append(lits, cl)
					}
				}
				if len(lits) != 1 {
					s.fail("expected exactly one top-level `keyData := struct{...}{...}`, found %d", len(lits))
				} else if st, ok := lits[0].Type.(*ast.StructType); !ok {
					s.fail("keyData is not a literal of an anonymous struct type (%s)", c05ExprStr(lits[0].Type))
				} else {
					fs, bad := c05kjFields(st)
					for _, b := range bad {
						s.fail("key struct: %s", b)
					}
					keyStruct = fs
					if len(fs) != 2 {
						s.fail("the key struct has %d fields, the model has two (query, options)", len(fs))
					} else {
						if fs[0].Type != "string" {
							s.fail("first field %s has type %s, expected string", fs[0].Name, fs[0].Type)
						}
						if fs[1].Type != "SearchOptions" {
							s.fail("second field %s has type %s, expected SearchOptions", fs[1].Name, fs[1].Type)
						}
						for _, f := range fs {
							if len(f.Opts) != 0 {
								s.fail("json tag of %s has options %v: not modelled", f.Name, f.Opts)
							}
							if !ast.IsExported(f.Name) {
								s.fail("field %s is unexported: encoding/json ignores it", f.Name)
							}
							if f.JSON == "-" {
								s.fail("field %s is excluded from the text (json:\"-\")", f.Name)
							}
						}
						vals := map[string]string{}
						for _, e := range lits[0].Elts {
							kv, ok := e.(*ast.KeyValueExpr)
							if !ok {
								s.fail("positional element in the key struct literal")
								continue
							}
							vals[c05ExprStr(kv.Key)] = c05ExprStr(kv.Value)
						}
						if len(vals) != 2 || len(lits[0].Elts) != 2 {
							s.fail("expected the literal to set exactly its two fields")
						}
						queryFrom, optionsFrom = vals[fs[0].Name], vals[fs[1].Name]
						o := c05ParamOfType(fd, "SearchOptions")
						if optionsFrom != o || o == "" {
							s.fail("field %s is set to `%s`, expected the options parameter", fs[1].Name, optionsFrom)
						}
						// the first field holds the normalised query: `nq := strings.ToLower(strings.TrimSpace(query))`
						q := c05ParamOfType(fd, "string")
						okq := false
						for _, st := range fd.Body.List {
							if as, ok := st.(*ast.AssignStmt); ok && as.Tok == token.DEFINE && len(as.Lhs) == 1 && len(as.Rhs) == 1 &&
								c05ExprStr(as.Lhs[0]) == queryFrom && q != "" && c05IsNormExpr(as.Rhs[0], q) {
								okq = true
							}
						}
						if !okq || c05MutatedIdents(fd.Body)[queryFrom] {
							s.fail("field %s is set to `%s`, expected the variable holding strings.ToLower(strings.TrimSpace(query))", fs[0].Name, queryFrom)
						}
					}
				}
			}
			s.done()
		}

		// ---- the encoder call ------------------------------------------------------------------------
		{
			s := &c05CkSite{x: x, site: "keyjson:marshal"}
			if fd == nil || fd.Body == nil {
				s.fail("(*SearchCache).generateCacheKey not found")
			} else {
				// json must be the standard library package
				jsonImport := ""
				for name, f := range x.Pkg(c05CachePkg) {
					if x.Fset.Position(fd.Pos()).Filename == "" || !strings.HasSuffix(x.Fset.Position(fd.Pos()).Filename, name) {
						continue
					}
					for _, im := range f.Imports {
						p, _ := strconv.Unquote(im.Path.Value)
						local := p[strings.LastIndex(p, "/")+1:]
						if im.Name != nil {
							local = im.Name.Name
						}
						if local == "json" {
							jsonImport = p
						}
					}
				}
				if jsonImport != "encoding/json" {
					s.fail("identifier json is bound to import %q, expected encoding/json", jsonImport)
				}
				defs, assigns, other := 0, 0, []string{}
				ast.Inspect(fd.Body, func(n ast.Node) bool {
					switch v := n.(type) {
					case *ast.AssignStmt:
						for i, l := range v.Lhs {
							if c05ExprStr(l) != "jsonData" {
								continue
							}
							rhs := ""
							if len(v.Rhs) == 1 {
								rhs = c05ExprStr(v.Rhs[0])
							} else if i < len(v.Rhs) {
								rhs = c05ExprStr(v.Rhs[i])
							}
							switch {
							case v.Tok == token.DEFINE && len(v.Lhs) == 2 && i == 0 && rhs == "json.Marshal(keyData)":
								defs++
							case v.Tok == token.ASSIGN && rhs == `[]byte(fmt.Sprintf("%#v", keyData))`:
								assigns++
							default:
								other = append(other, c05NodeStr(x, v))
							}
						}
					case *ast.SelectorExpr:
						if id, ok := v.X.(*ast.Ident); ok && id.Name == "json" && v.Sel.Name != "Marshal" {
							other = append(other, "json."+v.Sel.Name)
						}
					case *ast.UnaryExpr:
						if v.Op == token.AND && c05ExprStr(v.X) == "jsonData" {
							other = append(other, "&jsonData")
						}
					}
					return true
				})
				if defs != 1 {
					s.fail("expected exactly one `jsonData, err := json.Marshal(keyData)`, found %d", defs)
				}
				if assigns > 1 || len(other) > 0 {
					s.fail("jsonData / package json used in a way the model does not mirror: %v", other)
				}
				if !strings.Contains(c05NodeStr(x, fd.Body), "sha256.Sum256(jsonData)") {
					s.fail("expected sha256.Sum256(jsonData)")
				}
				if c05MutatedIdents(fd.Body)["keyData"] || c05DefineCount(fd.Body, "keyData") != 1 {
					s.fail("keyData is modified or redefined after its definition")
				}
			}
			s.done()
		}

		// ---- no custom marshalers, predeclared types not shadowed ------------------------------------------
		redeclared := map[string]bool{}
		{
			s := &c05CkSite{x: x, site: "keyjson:no-custom-marshalers"}
			for name, f := range x.Pkg(c05CachePkg) {
				for _, d := range f.Decls {
					switch v := d.(type) {
					case *ast.FuncDecl:
						if v.Recv != nil && (v.Name.Name == "MarshalJSON" || v.Name.Name == "MarshalText") {
							s.fail("%s declares a %s method: the reflective encoder is bypassed for that type", name, v.Name.Name)
						}
					case *ast.GenDecl:
						for _, sp := range v.Specs {
							if ts, ok := sp.(*ast.TypeSpec); ok {
								redeclared[ts.Name.Name] = true
							}
						}
					}
				}
			}
			s.done()
		}

		// ---- json names and kinds of cache.SearchOptions ---------------------------------------------------
		{
			s := &c05CkSite{x: x, site: "keyjson:json-names"}
			k := &c05CkSite{x: x, site: "keyjson:kinds"}
			st := c05StructType(x, c05CachePkg, "SearchOptions")
			if st == nil {
				s.fail("type cache.SearchOptions struct not found")
				k.fail("type cache.SearchOptions struct not found")
			} else {
				fs, bad := c05kjFields(st)
				for _, b := range bad {
					s.fail("cache.SearchOptions: %s", b)
				}
				check := func(where string, fs []c05kjField) {
					seen := map[string]string{}
					for _, f := range fs {
						if !c05kjPlainName.MatchString(f.JSON) {
							s.fail("%s: json name %q of %s is not plain (letters, digits, underscore)", where, f.JSON, f.Name)
						}
						if prev, dup := seen[strings.ToLower(f.JSON)]; dup {
							s.fail("%s: json name %q of %s collides with that of %s", where, f.JSON, f.Name, prev)
						}
						seen[strings.ToLower(f.JSON)] = f.Name
					}
				}
				check("cache.SearchOptions", fs)
				check("key struct", keyStruct)
				for _, f := range fs {
					if !c05KnownOptTypes[f.Type] {
						k.fail("field %s has type %s: the text is modelled for int, bool, float64, string, []string, map[string]float64", f.Name, f.Type)
					}
					for _, p := range f.Opts {
						if p != "omitempty" {
							k.fail("field %s: json tag option %q is not modelled", f.Name, p)
						}
					}
				}
				for _, t := range []string{"int", "bool", "float64", "string"} {
					if redeclared[t] {
						k.fail("package cache redeclares the predeclared type %s", t)
					}
				}
			}
			s.done()
			k.done()
		}

		// ---- output -----------------------------------------------------------------------------------------
		qn, on := "", ""
		if len(keyStruct) == 2 {
			qn, on = keyStruct[0].JSON, keyStruct[1].JSON
		}
		var sb strings.Builder
		sb.WriteString("namespace Wtf.Gen.KeyJson\n\n")
		sb.WriteString("/-- fields of the anonymous key struct in generateCacheKey: (name, Go type, json name, omitempty) -/\n")
		sb.WriteString("def keyStruct : List (String × String × String × Bool) := [")
		for i, f := range keyStruct {
			if i > 0 {
				sb.WriteString(", ")
			}
			fmt.Fprintf(&sb, "(%s, %s, %s, %s)", leanStr(f.Name), leanStr(f.Type), leanStr(f.JSON), c05LeanBool(f.Omit))
		}
		sb.WriteString("]\n\n")
		sb.WriteString("/-- json names of its first (normalised query) and second (options) field -/\n")
		fmt.Fprintf(&sb, "def queryName : String := %s\n", leanStr(qn))
		fmt.Fprintf(&sb, "def optionsName : String := %s\n", leanStr(on))
		sb.WriteString("\nend Wtf.Gen.KeyJson\n")
		x.WriteLean("KeyJson", sb.String())

		ks := []map[string]interface{}{}
		for _, f := range keyStruct {
			ks = append(ks, map[string]interface{}{"name": f.Name, "type": f.Type, "json": f.JSON, "omitempty": f.Omit})
		}
		x.Fact("keyjson", map[string]interface{}{"keyStruct": ks, "queryFrom": queryFrom, "optionsFrom": optionsFrom})
	})
}
