package main

import (
	"fmt"
	"go/ast"
	"go/token"
	"strings"
)

// SaveCmds (C08): how the `save` and `save-pipeline` handlers build the entry they store.
//
//   - wiring: for each field of the `database.Command{...}` literal in the handler, where its value comes from
//     ("arg:N", "flag:<name>", "true", "rule:description", "rule:keywords");
//   - the literal tables of save-pipeline: base keywords, the `strings.Contains(command, ..)` rules, the step
//     separator of `strings.Split(command, sep)`, the description format, and that user keywords come last.
//   - both handlers pass that entry to saveToPersonalDatabase and print their success line only after it
//     returned nil.
//
// Emits Gen/SaveCmds.lean.
func scRunLit(x *X, varName string) *ast.FuncLit {
	for _, f := range x.Pkg("internal/cli") {
		for _, d := range f.Decls {
			gd, ok := d.(*ast.GenDecl)
			if !ok || gd.Tok != token.VAR {
				continue
			}
			for _, sp := range gd.Specs {
				vs := sp.(*ast.ValueSpec)
				for i, nm := range vs.Names {
					if nm.Name != varName || i >= len(vs.Values) {
						continue
					}
					var fl *ast.FuncLit
					ast.Inspect(vs.Values[i], func(n ast.Node) bool {
						if kv, ok := n.(*ast.KeyValueExpr); ok && awIdent(kv.Key) == "Run" {
							if l, ok := kv.Value.(*ast.FuncLit); ok {
								fl = l
							}
							return false
						}
						return true
					})
					return fl
				}
			}
		}
	}
	return nil
}

type scHandler struct {
	wiring   [][2]string
	defs     map[string]ast.Expr // variable -> defining expression (first := in the body)
	problems []string
	// save-pipeline tables
	base     []string
	rules    [][2][]string
	sep      string
	descFmt  string
	userLast bool
	descFlag string // flag whose non-empty value overrides the generated description
	// success protocol
	successAfterSave bool
	successLine      string
}

func scAnalyse(x *X, fl *ast.FuncLit, argsName string) *scHandler {
	h := &scHandler{defs: map[string]ast.Expr{}}
	var entryLit *ast.CompositeLit
	kwVar := ""
	// definitions
	ast.Inspect(fl.Body, func(n ast.Node) bool {
		switch s := n.(type) {
		case *ast.AssignStmt:
			if s.Tok == token.DEFINE && len(s.Rhs) == 1 && len(s.Lhs) >= 1 {
				nm := awIdent(s.Lhs[0])
				if nm != "" && nm != "_" {
					if _, dup := h.defs[nm]; !dup {
						h.defs[nm] = s.Rhs[0]
					}
				}
			}
		case *ast.CompositeLit:
			if se, ok := s.Type.(*ast.SelectorExpr); ok && awIdent(se.X) == "database" && se.Sel.Name == "Command" {
				entryLit = s
			}
		}
		return true
	})
	if entryLit == nil {
		h.problems = append(h.problems, "no database.Command{...} literal in the handler")
		return h
	}
	src := func(e ast.Expr) string {
		for depth := 0; depth < 4; depth++ {
			switch v := e.(type) {
			case *ast.Ident:
				if v.Name == "true" || v.Name == "false" {
					return v.Name
				}
				d, ok := h.defs[v.Name]
				if !ok {
					return "unknown:" + v.Name
				}
				if v.Name == "description" {
					if _, isCall := d.(*ast.CallExpr); isCall {
						if r, m, _ := awSelCall(d); r == "fmt" && m == "Sprintf" {
							return "rule:description"
						}
					}
				}
				e = d
				continue
			case *ast.IndexExpr:
				if awIdent(v.X) == argsName {
					if bl, ok := v.Index.(*ast.BasicLit); ok {
						return "arg:" + bl.Value
					}
				}
				return "unknown:index"
			case *ast.CallExpr:
				// cmd.Flags().GetX("name")
				if se, ok := v.Fun.(*ast.SelectorExpr); ok && strings.HasPrefix(se.Sel.Name, "Get") && len(v.Args) == 1 {
					if s, ok := flStrLit(v.Args[0]); ok {
						return "flag:" + s
					}
				}
				// append(autoKeywords, keywords...)
				if awIdent(v.Fun) == "append" && len(v.Args) == 2 && v.Ellipsis.IsValid() {
					kwVar = awIdent(v.Args[0])
					h.userLast = true
					return "rule:keywords"
				}
				return "unknown:call"
			default:
				return "unknown"
			}
		}
		return "unknown:depth"
	}
	for _, el := range entryLit.Elts {
		kv, ok := el.(*ast.KeyValueExpr)
		if !ok {
			h.problems = append(h.problems, "positional field in database.Command literal")
			continue
		}
		h.wiring = append(h.wiring, [2]string{awIdent(kv.Key), src(kv.Value)})
	}
	// the user keywords appended last must be the --keywords flag
	if h.userLast {
		if ce, ok := h.defs["allKeywords"].(*ast.CallExpr); ok && len(ce.Args) == 2 {
			if s := src(ce.Args[1]); s != "flag:keywords" {
				h.problems = append(h.problems, "keywords appended after the automatic ones are not the --keywords flag: "+s)
			}
		}
	}
	// tables (save-pipeline)
	if kwVar != "" {
		if cl, ok := h.defs[kwVar].(*ast.CompositeLit); ok {
			for _, e := range cl.Elts {
				if s, ok := flStrLit(e); ok {
					h.base = append(h.base, s)
				} else {
					h.problems = append(h.problems, "non-literal base keyword")
				}
			}
		} else {
			h.problems = append(h.problems, "automatic keyword list is not initialised by a []string literal")
		}
		cmdVar := ""
		for _, w := range h.wiring {
			if w[0] == "Command" {
				for k, d := range h.defs {
					if ie, ok := d.(*ast.IndexExpr); ok && awIdent(ie.X) == argsName {
						if bl, ok := ie.Index.(*ast.BasicLit); ok && "arg:"+bl.Value == w[1] {
							cmdVar = k
						}
					}
				}
			}
		}
		for _, st := range fl.Body.List {
			is, ok := st.(*ast.IfStmt)
			if !ok || is.Init != nil || is.Else != nil {
				continue
			}
			// cond ::= strings.Contains(command, lit) ( || strings.Contains(command, lit) )*
			var needles []string
			okCond := true
			var walk func(e ast.Expr)
			walk = func(e ast.Expr) {
				if be, ok := e.(*ast.BinaryExpr); ok && be.Op == token.LOR {
					walk(be.X)
					walk(be.Y)
					return
				}
				r, m, ce := awSelCall(e)
				if ce != nil && r == "strings" && m == "Contains" && len(ce.Args) == 2 && awIdent(ce.Args[0]) == cmdVar {
					if s, ok := flStrLit(ce.Args[1]); ok {
						needles = append(needles, s)
						return
					}
				}
				okCond = false
			}
			walk(is.Cond)
			if !okCond || len(needles) == 0 {
				continue
			}
			// body ::= kwVar = append(kwVar, lits...)
			if len(is.Body.List) != 1 {
				h.problems = append(h.problems, fmt.Sprintf("%s: keyword rule with an unexpected body", x.Fset.Position(is.Pos())))
				continue
			}
			as, ok := is.Body.List[0].(*ast.AssignStmt)
			if !ok || len(as.Rhs) != 1 || awIdent(as.Lhs[0]) != kwVar {
				h.problems = append(h.problems, fmt.Sprintf("%s: keyword rule with an unexpected body", x.Fset.Position(is.Pos())))
				continue
			}
			ce, ok := as.Rhs[0].(*ast.CallExpr)
			if !ok || awIdent(ce.Fun) != "append" || len(ce.Args) < 2 || awIdent(ce.Args[0]) != kwVar {
				h.problems = append(h.problems, fmt.Sprintf("%s: keyword rule with an unexpected body", x.Fset.Position(is.Pos())))
				continue
			}
			var adds []string
			for _, a := range ce.Args[1:] {
				if s, ok := flStrLit(a); ok {
					adds = append(adds, s)
				} else {
					h.problems = append(h.problems, "non-literal keyword in rule")
				}
			}
			h.rules = append(h.rules, [2][]string{needles, adds})
		}
		// strings.Split(command, sep), fmt.Sprintf(fmt, name, stepCount)
		for _, d := range h.defs {
			if r, m, ce := awSelCall(d); ce != nil && r == "strings" && m == "Split" && len(ce.Args) == 2 && awIdent(ce.Args[0]) == cmdVar {
				h.sep, _ = flStrLit(ce.Args[1])
			}
		}
		// if desc, _ := cmd.Flags().GetString("description"); desc != "" { description = desc }
		for _, st := range fl.Body.List {
			is, ok := st.(*ast.IfStmt)
			if !ok || is.Init == nil || is.Else != nil || len(is.Body.List) != 1 {
				continue
			}
			as, ok := is.Init.(*ast.AssignStmt)
			if !ok || len(as.Rhs) != 1 {
				continue
			}
			ce, ok := as.Rhs[0].(*ast.CallExpr)
			if !ok {
				continue
			}
			se, ok := ce.Fun.(*ast.SelectorExpr)
			if !ok || se.Sel.Name != "GetString" || len(ce.Args) != 1 {
				continue
			}
			be, ok := is.Cond.(*ast.BinaryExpr)
			if !ok || be.Op != token.NEQ || awIdent(be.X) != awIdent(as.Lhs[0]) {
				continue
			}
			if e, ok := flStrLit(be.Y); !ok || e != "" {
				continue
			}
			bs, ok := is.Body.List[0].(*ast.AssignStmt)
			if ok && bs.Tok == token.ASSIGN && awIdent(bs.Lhs[0]) == "description" && awIdent(bs.Rhs[0]) == awIdent(as.Lhs[0]) {
				h.descFlag, _ = flStrLit(ce.Args[0])
			}
		}
		if ce, ok := h.defs["description"].(*ast.CallExpr); ok && len(ce.Args) == 3 {
			h.descFmt, _ = flStrLit(ce.Args[0])
			if awIdent(ce.Args[1]) == "" || awIdent(ce.Args[2]) != "stepCount" {
				h.problems = append(h.problems, "description format arguments are not (name, stepCount)")
			}
			if d, ok := h.defs["stepCount"].(*ast.CallExpr); !ok || awIdent(d.Fun) != "len" {
				h.problems = append(h.problems, "stepCount is not len(strings.Split(..))")
			}
		}
	}
	// success protocol: err := saveToPersonalDatabase(path, entry); if err != nil { print; return }; print success
	stage := 0
	for _, st := range fl.Body.List {
		switch s := st.(type) {
		case *ast.AssignStmt:
			if len(s.Rhs) == 1 {
				if _, m, ce := awSelCall(s.Rhs[0]); ce != nil && m == "saveToPersonalDatabase" && awIdent(s.Lhs[0]) == "err" && len(ce.Args) == 2 && awIdent(ce.Args[1]) == "entry" {
					stage = 1
				}
			}
		case *ast.IfStmt:
			if stage == 1 && awIsErrNotNil(s.Cond) && len(s.Body.List) > 0 {
				if _, ok := s.Body.List[len(s.Body.List)-1].(*ast.ReturnStmt); ok {
					stage = 2
				}
			}
		case *ast.ExprStmt:
			if r, m, ce := awSelCall(s.X); ce != nil && r == "fmt" && (m == "Printf" || m == "Println") && len(ce.Args) >= 1 {
				if lit, ok := flStrLit(ce.Args[0]); ok && strings.Contains(lit, "saved successfully") {
					h.successLine = strings.TrimSpace(lit)
					h.successAfterSave = stage == 2
				}
			}
		}
	}
	return h
}

func scWiringLean(w [][2]string) string {
	q := []string{}
	for _, p := range w {
		q = append(q, fmt.Sprintf("(%s, %s)", leanStr(p[0]), leanStr(p[1])))
	}
	return "[" + strings.Join(q, ", ") + "]"
}

func init() {
	register("savecmds", func(x *X) {
		var sb strings.Builder
		sb.WriteString("namespace Wtf.Gen.SaveCmds\n\n")
		emit := func(varName, label string) *scHandler {
			fl := scRunLit(x, varName)
			if !x.Assert("savecmds:"+label+":handler", fl != nil && len(fl.Type.Params.List) == 2, "Run func literal of %s not found", varName) {
				return &scHandler{}
			}
			args := fl.Type.Params.List[1].Names[0].Name
			h := scAnalyse(x, fl, args)
			unknown := []string{}
			for _, w := range h.wiring {
				if strings.HasPrefix(w[1], "unknown") {
					unknown = append(unknown, w[0]+"<-"+w[1])
				}
			}
			x.Assert("savecmds:"+label+":entry", len(h.problems) == 0 && len(unknown) == 0 && len(h.wiring) > 0, "problems: %v unresolved: %v", h.problems, unknown)
			x.Assert("savecmds:"+label+":success-only-after-save", h.successAfterSave,
				"expected `err := saveToPersonalDatabase(path, entry); if err != nil { ...; return }` before the %q line", h.successLine)
			return h
		}
		hs := emit("saveCmd", "save")
		hp := emit("savePipelineCmd", "save-pipeline")
		fmt.Fprintf(&sb, "/-- `wtf save`: field of the stored entry ↦ where the handler takes it from -/\ndef saveWiring : List (String × String) := %s\n\n", scWiringLean(hs.wiring))
		fmt.Fprintf(&sb, "/-- `wtf save-pipeline` -/\ndef savePipelineWiring : List (String × String) := %s\n\n", scWiringLean(hp.wiring))
		x.Assert("savecmds:save-pipeline:tables", len(hp.base) > 0 && len(hp.rules) > 0 && len(hp.sep) == 1 && strings.Count(hp.descFmt, "%s") == 1 &&
			strings.Count(hp.descFmt, "%d") == 1 && strings.Index(hp.descFmt, "%s") == 0 && hp.userLast && hp.descFlag != "",
			"base=%v rules=%v sep=%q descFmt=%q userLast=%v descFlag=%q", hp.base, hp.rules, hp.sep, hp.descFmt, hp.userLast, hp.descFlag)
		fmt.Fprintf(&sb, "def pipelineBaseKeywords : List String := %s\n\n", leanStrList(hp.base))
		rs := []string{}
		for _, r := range hp.rules {
			rs = append(rs, fmt.Sprintf("(%s, %s)", leanStrList(r[0]), leanStrList(r[1])))
		}
		fmt.Fprintf(&sb, "/-- (needles, keywords appended when the command contains one of the needles), in source order -/\ndef pipelineRules : List (List String × List String) := [%s]\n\n", strings.Join(rs, ",\n  "))
		fmt.Fprintf(&sb, "def pipelineStepSeparator : String := %s\n\n", leanStr(hp.sep))
		mid, end := "", ""
		if i := strings.Index(hp.descFmt, "%d"); i >= 2 {
			mid, end = hp.descFmt[2:i], hp.descFmt[i+2:]
		}
		fmt.Fprintf(&sb, "/-- description = name ++ descMid ++ <number of steps> ++ descEnd   (format %s) -/\ndef descMid : String := %s\ndef descEnd : String := %s\n\n", leanStr(hp.descFmt), leanStr(mid), leanStr(end))
		fmt.Fprintf(&sb, "/-- a non-empty value of this flag replaces the generated description -/\ndef descriptionFlag : String := %s\n\n", leanStr(hp.descFlag))
		fmt.Fprintf(&sb, "def saveSuccessLine : String := %s\ndef savePipelineSuccessLine : String := %s\n", leanStr(hs.successLine), leanStr(hp.successLine))
		fmt.Fprintf(&sb, "/-- the success line is printed only after saveToPersonalDatabase returned nil -/\ndef successOnlyAfterSave : Bool := %v\n\n", hs.successAfterSave && hp.successAfterSave)
		sb.WriteString("end Wtf.Gen.SaveCmds\n")
		x.WriteLean("SaveCmds", sb.String())
		x.Fact("savecmds.saveWiring", hs.wiring)
		x.Fact("savecmds.savePipelineWiring", hp.wiring)
		x.Fact("savecmds.successLines", []string{hs.successLine, hp.successLine})
	})
}
