package main

import (
	"fmt"
	"go/ast"
	"go/token"
)

// Lru: the default capacity literal in NewLRUCache (`if capacity <= 0 { capacity = N }`).
func init() {
	register("lru", func(x *X) {
		fd := x.Func("internal/cache", "NewLRUCache")
		if !x.Assert("lru:NewLRUCache", fd != nil, "function NewLRUCache not found") {
			return
		}
		val := ""
		for _, st := range fd.Body.List {
			is, ok := st.(*ast.IfStmt)
			if !ok {
				continue
			}
			be, ok := is.Cond.(*ast.BinaryExpr)
			if !ok || be.Op != token.LEQ {
				continue
			}
			if id, ok := be.X.(*ast.Ident); !ok || id.Name != "capacity" {
				continue
			}
			if lit, ok := be.Y.(*ast.BasicLit); !ok || lit.Value != "0" {
				continue
			}
			if len(is.Body.List) == 1 {
				if as, ok := is.Body.List[0].(*ast.AssignStmt); ok && len(as.Rhs) == 1 {
					if lit, ok := as.Rhs[0].(*ast.BasicLit); ok && lit.Kind == token.INT {
						val = lit.Value
					}
				}
			}
		}
		if !x.Assert("lru:default-capacity", val != "", "expected `if capacity <= 0 { capacity = <int> }` in NewLRUCache") {
			return
		}
		x.WriteLean("Lru", fmt.Sprintf("namespace Wtf.Gen.Lru\n\n/-- default capacity substituted by NewLRUCache for a non-positive request -/\ndef defaultCapacity : Nat := %s\n\nend Wtf.Gen.Lru\n", val))
		x.Fact("lru.defaultCapacity", val)
	})
}
