package main

// BM25F scoring formulas, translated statement by statement into Lean *definitions* (not facts about them):
//
//	(idx *universalIndex) fieldBM25(tf, dl, avgdl, w, b float64) float64   ->  Gen.Bm25F.fieldBM25
//	(idx *universalIndex) termBM25F(docID int, tf fieldTF) float64          ->  Gen.Bm25F.termBM25F
//	bm25IDF(n, df int) float64  = math.Log(<arg>)                           ->  Gen.Bm25F.idfArg
//
// Proofs/Bm25F.lean shows the hand-written model functions (Model/Index.lean) equal to these by `rfl`, and proves
// `0 ≤ Real.log (idfArg n df)` for the regenerated argument: a changed operator, operand order, constant or guard changes
// the generated definition and with it those obligations.
//
// Statement language understood (anything else fails an assertion and the module is withheld):
//   x := e | x = e | var x float64 | if <cmp> { x = e } | if <cmp> { x += e } | return e
//   e ::= ident | number | e (+|-|*|/) e | (e) | float64(e) | idx.fieldBM25(e, ...) | <selector in the glue table>
// Glue (how index state appears in the model; stated in the generated file):
//   idx.params.k1 -> k1 / P.k1      idx.params.w.F -> P.wF      idx.params.b.F -> P.bF
//   float64(tf.F) -> ofNat tf.F     float64(idx.docLens[docID].F) -> ofNat dl.F     idx.avgLen.F -> Index.avgOf tot.F n

import (
	"fmt"
	"go/ast"
	"go/token"
	"strings"
)

type bm25fTr struct {
	x     *X
	site  string
	sel   func(s string) (string, bool) // glue for selector expressions (printed Go source -> Lean term)
	calls map[string]string             // method name -> Lean function application prefix
	ok    bool
}

func bm25fSrc(e ast.Expr) string {
	switch v := e.(type) {
	case *ast.Ident:
		return v.Name
	case *ast.SelectorExpr:
		return bm25fSrc(v.X) + "." + v.Sel.Name
	case *ast.IndexExpr:
		return bm25fSrc(v.X) + "[" + bm25fSrc(v.Index) + "]"
	case *ast.ParenExpr:
		return "(" + bm25fSrc(v.X) + ")"
	case *ast.CallExpr:
		var as []string
		for _, a := range v.Args {
			as = append(as, bm25fSrc(a))
		}
		return bm25fSrc(v.Fun) + "(" + strings.Join(as, ",") + ")"
	case *ast.BasicLit:
		return v.Value
	}
	return fmt.Sprintf("<%T>", e)
}

func (t *bm25fTr) fail(format string, a ...interface{}) string {
	if t.ok {
		t.x.Assert(t.site, false, format, a...)
	}
	t.ok = false
	return "sorryNotTranslated"
}

func (t *bm25fTr) expr(e ast.Expr) string {
	switch v := e.(type) {
	case *ast.ParenExpr:
		return t.expr(v.X)
	case *ast.Ident:
		return v.Name
	case *ast.BasicLit:
		if q, ok := numLitQ(v); ok {
			switch q {
			case "⟨0, 1⟩":
				return "zero"
			case "⟨1, 1⟩":
				return "one"
			}
			return "(ofQ " + q + ")"
		}
		return t.fail("literal %s", v.Value)
	case *ast.BinaryExpr:
		op := map[token.Token]string{token.ADD: "add", token.SUB: "sub", token.MUL: "mul", token.QUO: "div"}[v.Op]
		if op == "" {
			return t.fail("operator %s", v.Op)
		}
		return "(" + op + " " + t.expr(v.X) + " " + t.expr(v.Y) + ")"
	case *ast.SelectorExpr, *ast.IndexExpr:
		if s, ok := t.sel(bm25fSrc(e)); ok {
			return s
		}
		return t.fail("selector %s has no glue", bm25fSrc(e))
	case *ast.CallExpr:
		if id, ok := v.Fun.(*ast.Ident); ok && id.Name == "float64" && len(v.Args) == 1 {
			if s, ok := t.sel(bm25fSrc(e)); ok {
				return s
			}
			// float64 of an int parameter
			if a, ok := v.Args[0].(*ast.Ident); ok {
				return a.Name
			}
			return t.fail("conversion %s has no glue", bm25fSrc(e))
		}
		if se, ok := v.Fun.(*ast.SelectorExpr); ok {
			if pre, ok := t.calls[bm25fSrc(se)]; ok {
				parts := []string{pre}
				for _, a := range v.Args {
					parts = append(parts, t.expr(a))
				}
				return "(" + strings.Join(parts, " ") + ")"
			}
		}
		return t.fail("call %s", bm25fSrc(e))
	}
	return t.fail("expression %T", e)
}

// cond: comparisons of the guards.  `a <= 0` on floats -> le a zero ; `tf.F > 0` on ints -> tf.F > 0
func (t *bm25fTr) cond(e ast.Expr, intSide bool) string {
	b, ok := e.(*ast.BinaryExpr)
	if !ok {
		return t.fail("guard %s", bm25fSrc(e))
	}
	if intSide {
		if lit, ok := b.Y.(*ast.BasicLit); ok && b.Op == token.GTR && lit.Value == "0" {
			if s, ok := b.X.(*ast.SelectorExpr); ok {
				if id, ok := s.X.(*ast.Ident); ok && id.Name == "tf" {
					return "tf." + s.Sel.Name + " > 0"
				}
			}
		}
		return t.fail("integer guard %s", bm25fSrc(e))
	}
	op := map[token.Token]string{token.LEQ: "le", token.LSS: "lt", token.GTR: "gt"}[b.Op]
	if op == "" {
		return t.fail("guard operator %s", b.Op)
	}
	return op + " " + t.expr(b.X) + " " + t.expr(b.Y)
}

// body translates a function body into a chain of lets ending in the returned expression.
func (t *bm25fTr) body(bl *ast.BlockStmt, intGuards bool) string {
	var sb strings.Builder
	for i, st := range bl.List {
		last := i == len(bl.List)-1
		switch s := st.(type) {
		case *ast.AssignStmt:
			if len(s.Lhs) != 1 || len(s.Rhs) != 1 {
				t.fail("assignment shape")
				continue
			}
			id, ok := s.Lhs[0].(*ast.Ident)
			if !ok || (s.Tok != token.DEFINE && s.Tok != token.ASSIGN) {
				t.fail("assignment %s", s.Tok)
				continue
			}
			fmt.Fprintf(&sb, "  let %s := %s\n", id.Name, strings.TrimSuffix(strings.TrimPrefix(t.expr(s.Rhs[0]), "("), ")"))
		case *ast.DeclStmt:
			gd, ok := s.Decl.(*ast.GenDecl)
			if !ok || gd.Tok != token.VAR || len(gd.Specs) != 1 {
				t.fail("declaration")
				continue
			}
			vs := gd.Specs[0].(*ast.ValueSpec)
			if len(vs.Names) != 1 || len(vs.Values) != 0 || bm25fSrc(vs.Type) != "float64" {
				t.fail("var declaration")
				continue
			}
			fmt.Fprintf(&sb, "  let %s : S := zero\n", vs.Names[0].Name)
		case *ast.IfStmt:
			if s.Init != nil || s.Else != nil || len(s.Body.List) != 1 {
				t.fail("if shape")
				continue
			}
			as, ok := s.Body.List[0].(*ast.AssignStmt)
			if !ok || len(as.Lhs) != 1 || len(as.Rhs) != 1 {
				t.fail("if body")
				continue
			}
			id, ok := as.Lhs[0].(*ast.Ident)
			if !ok {
				t.fail("if body target")
				continue
			}
			c := t.cond(s.Cond, intGuards)
			switch as.Tok {
			case token.ASSIGN:
				fmt.Fprintf(&sb, "  let %s := if %s then %s else %s\n", id.Name, c, t.expr(as.Rhs[0]), id.Name)
			case token.ADD_ASSIGN:
				fmt.Fprintf(&sb, "  let %s := if %s then add %s %s else %s\n", id.Name, c, id.Name, t.expr(as.Rhs[0]), id.Name)
			default:
				t.fail("if body operator %s", as.Tok)
			}
		case *ast.ReturnStmt:
			if !last || len(s.Results) != 1 {
				t.fail("return shape")
				continue
			}
			fmt.Fprintf(&sb, "  %s\n", strings.TrimSuffix(strings.TrimPrefix(t.expr(s.Results[0]), "("), ")"))
		default:
			t.fail("statement %T", st)
		}
	}
	return sb.String()
}

func init() {
	register("c_bm25f", func(x *X) {
		const pkg = "internal/database"
		fields := map[string]bool{"cmd": true, "desc": true, "keys": true, "tags": true}
		capF := func(f string) string { return strings.ToUpper(f[:1]) + f[1:] }
		var sb strings.Builder
		sb.WriteString("import WtfModel.Model.Index\n")
		sb.WriteString("/-\n  BM25F scoring formulas of internal/database/search_universal.go, translated statement by statement.\n" +
			"  Glue: idx.params.k1 -> k1 / P.k1; idx.params.w.F -> P.wF; idx.params.b.F -> P.bF; float64(tf.F) -> ofNat tf.F;\n" +
			"  float64(idx.docLens[docID].F) -> ofNat dl.F; idx.avgLen.F -> Index.avgOf tot.F n (the index stores total/N).\n-/\n")
		sb.WriteString("namespace Wtf.Gen.Bm25F\nopen Wtf Wtf.ScoreOps Wtf.Index\nvariable {S : Type} [ScoreOps S]\n\n")

		// fieldBM25 ---------------------------------------------------------------------------------
		fd := x.Func(pkg, "fieldBM25")
		if !x.Assert("bm25f:fieldBM25", fd != nil && fd.Body != nil && fd.Recv != nil, "method fieldBM25 not found") {
			return
		}
		var params []string
		for _, f := range fd.Type.Params.List {
			for _, n := range f.Names {
				params = append(params, n.Name)
			}
			x.Assert("bm25f:fieldBM25:param-types", bm25fSrc(f.Type) == "float64", "parameter type %s", bm25fSrc(f.Type))
		}
		x.Assert("bm25f:fieldBM25:params", strings.Join(params, ",") == "tf,dl,avgdl,w,b", "parameters %v", params)
		t := &bm25fTr{x: x, site: "bm25f:fieldBM25:body", ok: true,
			sel: func(s string) (string, bool) {
				if s == "idx.params.k1" {
					return "k1", true
				}
				return "", false
			}}
		body := t.body(fd.Body, false)
		// `k1 := idx.params.k1` becomes `let k1 := k1`: drop it (k1 is the first parameter of the Lean definition)
		body = strings.Replace(body, "  let k1 := k1\n", "", 1)
		x.Assert("bm25f:fieldBM25:body", t.ok, "translated")
		sb.WriteString("/-- fieldBM25; `k1` is idx.params.k1 -/\ndef fieldBM25 (k1 " + strings.Join(params, " ") + " : S) : S :=\n" + body + "\n")

		// termBM25F ---------------------------------------------------------------------------------
		fd = x.Func(pkg, "termBM25F")
		if !x.Assert("bm25f:termBM25F", fd != nil && fd.Body != nil && fd.Recv != nil, "method termBM25F not found") {
			return
		}
		t = &bm25fTr{x: x, site: "bm25f:termBM25F:body", ok: true,
			calls: map[string]string{"idx.fieldBM25": "fieldBM25 P.k1"},
			sel: func(s string) (string, bool) {
				for f := range fields {
					switch s {
					case "float64(tf." + f + ")":
						return "(ofNat tf." + f + ")", true
					case "float64(idx.docLens[docID]." + f + ")":
						return "(ofNat dl." + f + ")", true
					case "idx.avgLen." + f:
						return "(avgOf tot." + f + " n)", true
					case "idx.params.w." + f:
						return "P.w" + capF(f), true
					case "idx.params.b." + f:
						return "P.b" + capF(f), true
					}
				}
				return "", false
			}}
		body = t.body(fd.Body, true)
		x.Assert("bm25f:termBM25F:body", t.ok, "translated")
		sb.WriteString("/-- termBM25F, given the document's field lengths `dl` and the collection totals `tot` over `n` documents -/\n" +
			"def termBM25F (P : Params S) (n : Nat) (tot : DocLens) (dl : DocLens) (tf : FieldTF) : S :=\n" + body + "\n")

		// bm25IDF -----------------------------------------------------------------------------------
		fd = x.Func(pkg, "bm25IDF")
		if !x.Assert("bm25f:bm25IDF", fd != nil && fd.Body != nil && fd.Recv == nil, "bm25IDF not found") {
			return
		}
		var arg ast.Expr
		if len(fd.Body.List) == 1 {
			if rs, ok := fd.Body.List[0].(*ast.ReturnStmt); ok && len(rs.Results) == 1 {
				if ce, ok := rs.Results[0].(*ast.CallExpr); ok && bm25fSrc(ce.Fun) == "math.Log" && len(ce.Args) == 1 {
					arg = ce.Args[0]
				}
			}
		}
		params = nil
		for _, f := range fd.Type.Params.List {
			for _, n := range f.Names {
				params = append(params, n.Name)
			}
		}
		if !x.Assert("bm25f:bm25IDF:shape", arg != nil && strings.Join(params, ",") == "n,df", "expected `return math.Log(<arg>)` over (n, df int)") {
			return
		}
		t = &bm25fTr{x: x, site: "bm25f:bm25IDF:arg", ok: true, sel: func(string) (string, bool) { return "", false }}
		a := t.expr(arg)
		x.Assert("bm25f:bm25IDF:arg", t.ok, "translated")
		sb.WriteString("/-- the argument of math.Log in bm25IDF (n, df are the float64 conversions of the counts) -/\n" +
			"def idfArg (n df : S) : S :=\n  " + strings.TrimSuffix(strings.TrimPrefix(a, "("), ")") + "\n\n")
		sb.WriteString("end Wtf.Gen.Bm25F\n")
		x.WriteLean("Bm25F", sb.String())
	})
}
