package main

import (
	"bytes"
	"fmt"
	"go/ast"
	"go/parser"
	"go/printer"
	"go/token"
	"os"
	"path/filepath"
	"regexp"
	"sort"
	"strings"
)

// Embedding (C19): code-shape facts the model of the embedding loaders and of the semantic stage
// rests on.
//
//   - LoadWordVectors: the literal Dimension, the header size check (constants extracted) and that it
//     precedes every allocation sized from the header; the exact set of make() calls.
//   - LoadCommandEmbeddings: the same for the command table.
//   - CosineSimilarity: guards, NaN rule, clamp are present.
//   - the semantic stage is reachable only through `if db.HasEmbeddings() && len(results) > 0` at the
//     end of applyPostScoringBoosts, HasEmbeddings is `embeddingIndex != nil`, the field is assigned
//     only by LoadEmbeddings, and only internal/database imports internal/embedding.
//   - applySemanticBoost: floor test, boost formula, stable re-sort.
func init() {
	register("embedding", func(x *X) {
		g := embGen{x: x}
		g.wordVectors()
		g.cmdEmbeddings()
		g.remaining()
		g.cosine()
		g.gate()
		g.boost()
		var sb strings.Builder
		sb.WriteString("namespace Wtf.Gen.Embedding\n\n")
		nat := func(name, doc string, v int) {
			fmt.Fprintf(&sb, "/-- %s -/\ndef %s : Nat := %d\n", doc, name, v)
		}
		boolean := func(name, doc string, v bool) {
			fmt.Fprintf(&sb, "/-- %s -/\ndef %s : Bool := %v\n", doc, name, v)
		}
		nat("wvDimension", "the literal `Dimension:` in LoadWordVectors", g.wvDim)
		nat("wvHeaderBytes", "`remainingBytes(f, H)` in LoadWordVectors", g.wvHdr)
		nat("wvRecordFixedBytes", "A in `int64(A+B*idx.Dimension)`: bytes of a record besides the vector", g.wvFixed)
		nat("wvF32Bytes", "B in `int64(A+B*idx.Dimension)`", g.wvF32)
		boolean("wvSizeCheckBeforeAlloc", "the header count is compared with what the file can hold before any allocation sized from it", g.wvCheck)
		boolean("wvAllocSites", "the make() calls of LoadWordVectors are exactly: map hinted by the count, word buffer of wordLen bytes, vector of Dimension float32", g.wvMakes)
		nat("ceHeaderBytes", "`remainingBytes(f, H)` in LoadCommandEmbeddings", g.ceHdr)
		nat("ceF32Bytes", "`recordSize := int64(B) * int64(dimension)`", g.ceF32)
		boolean("ceSizeCheckBeforeAlloc", "dimension test and size check precede the table allocation", g.ceCheck)
		boolean("ceAllocSites", "the make() calls of LoadCommandEmbeddings are exactly: table of numCommands slices, vector of dimension float32", g.ceMakes)
		boolean("remainingBytesShape", "remainingBytes is `Stat` size minus header, 0 on error or short file", g.remOK)
		boolean("cosineGuardsAndClamp", "CosineSimilarity has the length/empty guard, the zero-norm guard, the NaN rule and the clamp", g.cosOK)
		boolean("semanticGatedByIndex", "applySemanticBoost runs only under `db.HasEmbeddings() && len(results) > 0`; the index field is read only by its four accessors and written only by LoadEmbeddings", g.gateOK)
		boolean("boostFormulaAndStableSort", "applySemanticBoost: `>= SemanticMinScore`, `*= 1 + SemanticAlpha*similarity`, sort.SliceStable by descending score", g.boostOK)
		sb.WriteString("\nend Wtf.Gen.Embedding\n")
		x.WriteLean("Embedding", sb.String())
		x.Fact("embedding", map[string]interface{}{
			"wvDimension": g.wvDim, "wvHeaderBytes": g.wvHdr, "wvRecordFixedBytes": g.wvFixed, "wvF32Bytes": g.wvF32,
			"ceHeaderBytes": g.ceHdr, "ceF32Bytes": g.ceF32,
		})
	})
}

type embGen struct {
	x                                  *X
	wvDim, wvHdr, wvFixed, wvF32       int
	ceHdr, ceF32                       int
	wvCheck, wvMakes, ceCheck, ceMakes bool
	remOK, cosOK, gateOK, boostOK      bool
}

var wsRun = regexp.MustCompile(`\s+`)

// render prints a node without comments, white space collapsed.
func (g *embGen) render(n ast.Node) string {
	var buf bytes.Buffer
	printer.Fprint(&buf, g.x.Fset, n)
	return strings.TrimSpace(wsRun.ReplaceAllString(buf.String(), " "))
}

func atoiSafe(s string) int {
	v := 0
	fmt.Sscanf(s, "%d", &v)
	return v
}

// makes lists the rendered make() calls of a function with their positions.
func (g *embGen) makes(fd *ast.FuncDecl) (out []string, pos []token.Pos) {
	ast.Inspect(fd.Body, func(n ast.Node) bool {
		if c, ok := n.(*ast.CallExpr); ok {
			if id, ok := c.Fun.(*ast.Ident); ok && id.Name == "make" {
				out = append(out, g.render(c))
				pos = append(pos, c.Pos())
			}
		}
		return true
	})
	return
}

func sameSet(a []string, b ...string) bool {
	x := append([]string{}, a...)
	y := append([]string{}, b...)
	sort.Strings(x)
	sort.Strings(y)
	return strings.Join(x, "\x00") == strings.Join(y, "\x00")
}

func endsInReturn(b *ast.BlockStmt) bool {
	if len(b.List) == 0 {
		return false
	}
	_, ok := b.List[len(b.List)-1].(*ast.ReturnStmt)
	return ok
}

func (g *embGen) wordVectors() {
	x := g.x
	fd := x.Func("internal/embedding", "LoadWordVectors")
	if !x.Assert("embed:LoadWordVectors", fd != nil, "function not found") {
		return
	}
	// Dimension literal
	ast.Inspect(fd.Body, func(n ast.Node) bool {
		if cl, ok := n.(*ast.CompositeLit); ok && g.render(cl.Type) == "Index" {
			for _, e := range cl.Elts {
				if kv, ok := e.(*ast.KeyValueExpr); ok && g.render(kv.Key) == "Dimension" {
					if lit, ok := kv.Value.(*ast.BasicLit); ok && lit.Kind == token.INT {
						g.wvDim = atoiSafe(lit.Value)
					}
				}
			}
		}
		return true
	})
	x.Assert("embed:wv:dimension", g.wvDim > 0, "expected `&Index{Dimension: <int>}` in LoadWordVectors")
	// size check
	re := regexp.MustCompile(`^maxRecords := remainingBytes\(f, (\d+)\) / int64\((\d+) ?\+ ?(\d+) ?\* ?idx\.Dimension\)$`)
	var checkEnd token.Pos
	for _, st := range fd.Body.List {
		is, ok := st.(*ast.IfStmt)
		if !ok || is.Init == nil {
			continue
		}
		m := re.FindStringSubmatch(g.render(is.Init))
		if m == nil || g.render(is.Cond) != "int64(vocabSize) > maxRecords" || !endsInReturn(is.Body) || is.Else != nil {
			continue
		}
		g.wvHdr, g.wvFixed, g.wvF32 = atoiSafe(m[1]), atoiSafe(m[2]), atoiSafe(m[3])
		checkEnd = is.End()
	}
	mk, pos := g.makes(fd)
	early := []string{}
	for i, m := range mk {
		if strings.Contains(m, "vocabSize") && (checkEnd == token.NoPos || pos[i] < checkEnd) {
			early = append(early, m)
		}
	}
	g.wvCheck = checkEnd != token.NoPos && len(early) == 0
	x.Assert("embed:wv:size-check", g.wvCheck,
		"expected `if maxRecords := remainingBytes(f, H) / int64(A+B*idx.Dimension); int64(vocabSize) > maxRecords { return ... }` before every make() that mentions vocabSize (found check=%v, early allocations=%v)", checkEnd != token.NoPos, early)
	g.wvMakes = sameSet(mk, "make(map[string][]float32, vocabSize)", "make([]byte, wordLen)", "make([]float32, idx.Dimension)")
	x.Assert("embed:wv:alloc-sites", g.wvMakes, "make() calls of LoadWordVectors changed: %v", mk)
}

func (g *embGen) cmdEmbeddings() {
	x := g.x
	fd := x.Func("internal/embedding", "LoadCommandEmbeddings")
	if !x.Assert("embed:LoadCommandEmbeddings", fd != nil, "function not found") {
		return
	}
	reRec := regexp.MustCompile(`^recordSize := int64\((\d+)\) \* int64\(dimension\)$`)
	reCond := regexp.MustCompile(`^numCommands > 0 && \(recordSize == 0 \|\| int64\(numCommands\) > remainingBytes\(f, (\d+)\)/recordSize\)$`)
	var dimTest, recAssign, checkEnd token.Pos
	for _, st := range fd.Body.List {
		switch s := st.(type) {
		case *ast.AssignStmt:
			if m := reRec.FindStringSubmatch(g.render(s)); m != nil {
				g.ceF32 = atoiSafe(m[1])
				recAssign = s.Pos()
			}
		case *ast.IfStmt:
			if s.Init == nil && s.Else == nil && endsInReturn(s.Body) {
				c := g.render(s.Cond)
				if c == "int(dimension) != idx.Dimension" {
					dimTest = s.End()
				}
				if m := reCond.FindStringSubmatch(c); m != nil {
					g.ceHdr = atoiSafe(m[1])
					checkEnd = s.End()
				}
			}
		}
	}
	mk, pos := g.makes(fd)
	early := []string{}
	for i, m := range mk {
		if checkEnd == token.NoPos || pos[i] < checkEnd {
			early = append(early, m)
		}
	}
	g.ceCheck = dimTest != token.NoPos && recAssign != token.NoPos && checkEnd != token.NoPos &&
		dimTest < recAssign && recAssign < checkEnd && len(early) == 0
	x.Assert("embed:ce:size-check", g.ceCheck,
		"expected dimension test, `recordSize := int64(B) * int64(dimension)` and `if numCommands > 0 && (recordSize == 0 || int64(numCommands) > remainingBytes(f, H)/recordSize) { return ... }` before every make() (early allocations=%v)", early)
	g.ceMakes = sameSet(mk, "make([][]float32, numCommands)", "make([]float32, dimension)")
	x.Assert("embed:ce:alloc-sites", g.ceMakes, "make() calls of LoadCommandEmbeddings changed: %v", mk)
}

func (g *embGen) remaining() {
	x := g.x
	fd := x.Func("internal/embedding", "remainingBytes")
	if !x.Assert("embed:remainingBytes", fd != nil, "function not found") {
		return
	}
	want := "{ fi, err := f.Stat() if err != nil || fi.Size() < header { return 0 } return fi.Size() - header }"
	got := g.render(fd.Body)
	g.remOK = got == want
	x.Assert("embed:remainingBytes:shape", g.remOK, "body is %q", got)
}

func (g *embGen) cosine() {
	x := g.x
	fd := x.Func("internal/embedding", "CosineSimilarity")
	if !x.Assert("embed:CosineSimilarity", fd != nil, "function not found") {
		return
	}
	body := g.render(fd.Body)
	need := []string{
		"if len(a) != len(b) || len(a) == 0 { return 0 }",
		"if normA == 0 || normB == 0 { return 0 }",
		"cos := dot / (math.Sqrt(normA) * math.Sqrt(normB))",
		"if math.IsNaN(cos) { return 0",
		"if cos > 1 { cos = 1 } else if cos < -1 { cos = -1 }",
		"return cos }",
	}
	missing := []string{}
	for _, n := range need {
		if !strings.Contains(body, n) {
			missing = append(missing, n)
		}
	}
	g.cosOK = len(missing) == 0
	x.Assert("embed:cosine:shape", g.cosOK, "missing in CosineSimilarity: %v", missing)
}

// funcOf returns the name of the function declaration of `file` that contains pos.
func funcOf(file *ast.File, pos token.Pos) string {
	for _, d := range file.Decls {
		if fd, ok := d.(*ast.FuncDecl); ok && fd.Pos() <= pos && pos < fd.End() {
			return fd.Name.Name
		}
	}
	return ""
}

func (g *embGen) gate() {
	x := g.x
	files := x.Pkg("internal/database")
	problems := []string{}
	readers := map[string]bool{"LoadEmbeddings": true, "HasEmbeddings": true, "EmbedQuery": true, "SemanticScores": true}
	for name, f := range files {
		ast.Inspect(f, func(n ast.Node) bool {
			switch e := n.(type) {
			case *ast.SelectorExpr:
				fn := funcOf(f, e.Pos())
				switch e.Sel.Name {
				case "embeddingIndex":
					if !readers[fn] {
						problems = append(problems, fmt.Sprintf("%s: embeddingIndex used in %s", name, fn))
					}
				case "applySemanticBoost":
					if fn != "applyPostScoringBoosts" {
						problems = append(problems, fmt.Sprintf("%s: applySemanticBoost referenced in %s", name, fn))
					}
				case "EmbedQuery", "SemanticScores":
					if fn != "applySemanticBoost" && !readers[fn] {
						problems = append(problems, fmt.Sprintf("%s: %s referenced in %s", name, e.Sel.Name, fn))
					}
				}
			case *ast.AssignStmt:
				for _, l := range e.Lhs {
					if se, ok := l.(*ast.SelectorExpr); ok && se.Sel.Name == "embeddingIndex" && funcOf(f, e.Pos()) != "LoadEmbeddings" {
						problems = append(problems, fmt.Sprintf("%s: embeddingIndex assigned in %s", name, funcOf(f, e.Pos())))
					}
				}
			}
			return true
		})
	}
	if fd := x.Func("internal/database", "HasEmbeddings"); fd == nil || g.render(fd.Body) != "{ return db.embeddingIndex != nil }" {
		problems = append(problems, "HasEmbeddings is not `return db.embeddingIndex != nil`")
	}
	if fd := x.Func("internal/database", "applyPostScoringBoosts"); fd == nil {
		problems = append(problems, "applyPostScoringBoosts not found")
	} else {
		n := len(fd.Body.List)
		ok := false
		if n >= 2 {
			is, isIf := fd.Body.List[n-2].(*ast.IfStmt)
			_, isRet := fd.Body.List[n-1].(*ast.ReturnStmt)
			if isIf && isRet && is.Init == nil && is.Else == nil &&
				g.render(is.Cond) == "db.HasEmbeddings() && len(results) > 0" &&
				g.render(is.Body) == "{ results = db.applySemanticBoost(results, query) }" &&
				g.render(fd.Body.List[n-1]) == "return results" {
				ok = true
			}
		}
		if !ok {
			problems = append(problems, "applyPostScoringBoosts does not end with `if db.HasEmbeddings() && len(results) > 0 { results = db.applySemanticBoost(results, query) }; return results`")
		}
	}
	// LoadEmbeddings: missing glove file / failed word-vector load leave the field alone
	if fd := x.Func("internal/database", "LoadEmbeddings"); fd == nil {
		problems = append(problems, "LoadEmbeddings not found")
	} else {
		body := g.render(fd.Body)
		for _, need := range []string{
			`if gloveFile == "" {`,
			"idx, err := embedding.LoadWordVectors(gloveFile) if err != nil {",
			`if cmdEmbedFile != "" { if err := idx.LoadCommandEmbeddings(cmdEmbedFile); err != nil {`,
			"db.embeddingIndex = idx",
		} {
			if !strings.Contains(body, need) {
				problems = append(problems, "LoadEmbeddings lacks `"+need+"`")
			}
		}
	}
	// importers of internal/embedding
	filepath.Walk(x.Repo, func(p string, info os.FileInfo, err error) error {
		if err != nil {
			return nil
		}
		if info.IsDir() {
			if b := info.Name(); b != "." && (strings.HasPrefix(b, ".") || b == "vendor" || b == "node_modules") {
				return filepath.SkipDir
			}
			return nil
		}
		if !strings.HasSuffix(p, ".go") || strings.HasSuffix(p, "_test.go") {
			return nil
		}
		f, err := parser.ParseFile(token.NewFileSet(), p, nil, parser.ImportsOnly)
		if err != nil {
			return nil
		}
		rel, _ := filepath.Rel(x.Repo, p)
		for _, im := range f.Imports {
			if strings.HasSuffix(strings.Trim(im.Path.Value, `"`), "/internal/embedding") && filepath.ToSlash(filepath.Dir(rel)) != "internal/database" {
				problems = append(problems, rel+" imports internal/embedding")
			}
		}
		return nil
	})
	sort.Strings(problems)
	g.gateOK = len(problems) == 0
	x.Assert("embed:semantic-gate", g.gateOK, "%s", strings.Join(problems, "; "))
}

func (g *embGen) boost() {
	x := g.x
	fd := x.Func("internal/database", "applySemanticBoost")
	if !x.Assert("embed:applySemanticBoost", fd != nil, "function not found") {
		return
	}
	body := g.render(fd.Body)
	need := []string{
		"queryEmbed := db.EmbedQuery(query) if queryEmbed == nil { return results",
		"semanticScores := db.SemanticScores(queryEmbed) if semanticScores == nil { return results }",
		"idx, ok := cmdToIdx[results[i].Command] if !ok || idx >= len(semanticScores) { continue }",
		"similarity := semanticScores[idx]",
		"if similarity >= constants.SemanticMinScore { results[i].Score *= (1.0 + constants.SemanticAlpha*similarity) }",
		"sort.SliceStable(results, func(i, j int) bool { return results[i].Score > results[j].Score }) return results }",
	}
	missing := []string{}
	for _, n := range need {
		if !strings.Contains(body, n) {
			missing = append(missing, n)
		}
	}
	g.boostOK = len(missing) == 0
	x.Assert("embed:boost:shape", g.boostOK, "missing in applySemanticBoost: %v", missing)
}
