package main

import (
	"bytes"
	"fmt"
	"go/ast"
	"go/constant"
	"go/importer"
	"go/parser"
	"go/printer"
	"go/token"
	"go/types"
	"path/filepath"
	"regexp"
	"sort"
	"strconv"
	"strings"
)

// LegacyScore: the legacy scorer (calculateScore and everything under it) and the legacy entry points
// SearchWithOptions / SearchWithFuzzy / SearchWithNLP / GetSuggestions of internal/database/search.go.
//
// Two kinds of output, both regenerated on every run into Gen/LegacyScore.lean:
//
//  1. VALUES.  Every numeric constant expression (float literal, constants.X, products of those) and every
//     table (domainMappings, commonWords, the Trim cut sets, the category switch with its helper
//     functions) becomes a named Lean definition that Model/LegacyScore.lean / Model/LegacyEntry.lean use.
//     Constant expressions are evaluated exactly (go/constant), as the compiler does.
//  2. SHAPES.  The hand-written model follows the control flow of each function.  For each function the
//     body is printed with its value expressions replaced by holes (ℍ numeric, 𝕋 table, 𝕊 cut set) and
//     compared with the shape the model was written against: any edit that is not a change of a value
//     trips `legacyscore:shape:<func>`; a change of a value changes the regenerated definition instead.
//
// The category helpers (getCategoryBoostForWord, get*Boost, is*Tool) are not shape-asserted but
// *interpreted*: they are translated into a rule table (case words, list of (disjunction of atoms,
// value), default) that the model evaluates, so edits there change the model's behaviour directly.

const legacyscoreDB = "internal/database"

type legacyscoreHole struct {
	val   constant.Value
	isInt bool
	src   string
}

type legacyscoreCtx struct {
	x      *X
	consts map[string]constant.Value
	fset   *token.FileSet
	funcs  map[string]*ast.FuncDecl
}

// constant evaluation ----------------------------------------------------------------------------

func (c *legacyscoreCtx) num(e ast.Expr) (constant.Value, bool, bool) { // value, isInt, ok
	switch t := e.(type) {
	case *ast.ParenExpr:
		return c.num(t.X)
	case *ast.BasicLit:
		if t.Kind == token.INT || t.Kind == token.FLOAT {
			return constant.MakeFromLiteral(t.Value, t.Kind, 0), t.Kind == token.INT, true
		}
	case *ast.SelectorExpr:
		if id, ok := t.X.(*ast.Ident); ok && id.Name == "constants" {
			if v, ok := c.consts[t.Sel.Name]; ok && (v.Kind() == constant.Int || v.Kind() == constant.Float) {
				return v, v.Kind() == constant.Int, true
			}
		}
	case *ast.UnaryExpr:
		if t.Op == token.SUB {
			if v, i, ok := c.num(t.X); ok {
				return constant.UnaryOp(token.SUB, v, 0), i, true
			}
		}
	case *ast.BinaryExpr:
		a, ai, ok1 := c.num(t.X)
		b, bi, ok2 := c.num(t.Y)
		if ok1 && ok2 {
			switch t.Op {
			case token.ADD, token.SUB, token.MUL:
				if ai && bi {
					return constant.BinaryOp(a, t.Op, b), true, true
				}
				return constant.BinaryOp(constant.ToFloat(a), t.Op, constant.ToFloat(b)), false, true
			case token.QUO:
				if ai && bi {
					return constant.BinaryOp(a, token.QUO_ASSIGN, b), true, true
				}
				return constant.BinaryOp(constant.ToFloat(a), token.QUO, constant.ToFloat(b)), false, true
			}
		}
	}
	return nil, false, false
}

// valueExpr: a numeric constant expression that is a *value* of the code (mentions a float literal or
// a constant of package constants); bare integer literals stay part of the shape.
func (c *legacyscoreCtx) valueExpr(e ast.Expr) bool {
	if _, _, ok := c.num(e); !ok {
		return false
	}
	found := false
	ast.Inspect(e, func(n ast.Node) bool {
		switch t := n.(type) {
		case *ast.BasicLit:
			if t.Kind == token.FLOAT {
				found = true
			}
		case *ast.SelectorExpr:
			if id, ok := t.X.(*ast.Ident); ok && id.Name == "constants" {
				found = true
			}
		}
		return true
	})
	return found
}

func (c *legacyscoreCtx) str(e ast.Expr) (string, bool) {
	switch t := e.(type) {
	case *ast.ParenExpr:
		return c.str(t.X)
	case *ast.BasicLit:
		if t.Kind == token.STRING {
			s, err := strconv.Unquote(t.Value)
			return s, err == nil
		}
	case *ast.SelectorExpr:
		if id, ok := t.X.(*ast.Ident); ok && id.Name == "constants" {
			if v, ok := c.consts[t.Sel.Name]; ok && v.Kind() == constant.String {
				return constant.StringVal(v), true
			}
		}
	case *ast.BinaryExpr:
		if t.Op == token.ADD {
			a, ok1 := c.str(t.X)
			b, ok2 := c.str(t.Y)
			if ok1 && ok2 {
				return a + b, true
			}
		}
	}
	return "", false
}

// shapes -------------------------------------------------------------------------------------------

// shape prints the body of fn with holes and returns the numeric holes, the table literals and the
// Trim cut sets in source order.  The function's AST (privately parsed) is rewritten in place.
func (c *legacyscoreCtx) shape(fd *ast.FuncDecl) (text string, holes []legacyscoreHole, tables []*ast.CompositeLit, cutsets []string) {
	var rewrite func(e ast.Expr) ast.Expr
	rewrite = func(e ast.Expr) ast.Expr {
		if e == nil {
			return nil
		}
		if c.valueExpr(e) {
			v, isInt, _ := c.num(e)
			var sb bytes.Buffer
			printer.Fprint(&sb, c.fset, e)
			holes = append(holes, legacyscoreHole{v, isInt, sb.String()})
			return &ast.Ident{Name: "ℍ"}
		}
		switch t := e.(type) {
		case *ast.CompositeLit:
			if _, isMap := t.Type.(*ast.MapType); isMap {
				tables = append(tables, t)
				return &ast.Ident{Name: "𝕋"}
			}
			for i := range t.Elts {
				t.Elts[i] = rewrite(t.Elts[i])
			}
		case *ast.ParenExpr:
			t.X = rewrite(t.X)
		case *ast.BinaryExpr:
			t.X = rewrite(t.X)
			t.Y = rewrite(t.Y)
		case *ast.UnaryExpr:
			t.X = rewrite(t.X)
		case *ast.StarExpr:
			t.X = rewrite(t.X)
		case *ast.CallExpr:
			if types.ExprString(t.Fun) == "strings.Trim" && len(t.Args) == 2 {
				if s, ok := c.str(t.Args[1]); ok {
					cutsets = append(cutsets, s)
					t.Args[0] = rewrite(t.Args[0])
					t.Args[1] = &ast.Ident{Name: "𝕊"}
					return t
				}
			}
			t.Fun = rewrite(t.Fun)
			for i := range t.Args {
				t.Args[i] = rewrite(t.Args[i])
			}
		case *ast.IndexExpr:
			t.X = rewrite(t.X)
			t.Index = rewrite(t.Index)
		case *ast.SliceExpr:
			t.X = rewrite(t.X)
			t.Low, t.High, t.Max = rewrite(t.Low), rewrite(t.High), rewrite(t.Max)
		case *ast.SelectorExpr:
			t.X = rewrite(t.X)
		case *ast.KeyValueExpr:
			t.Key = rewrite(t.Key)
			t.Value = rewrite(t.Value)
		case *ast.FuncLit:
			rewriteStmt(t.Body, rewrite)
		}
		return e
	}
	rewriteStmt(fd.Body, rewrite)
	var sb bytes.Buffer
	printer.Fprint(&sb, c.fset, fd.Body)
	return strings.Join(strings.Fields(sb.String()), " "), holes, tables, cutsets
}

func rewriteStmt(s ast.Stmt, rw func(ast.Expr) ast.Expr) {
	switch t := s.(type) {
	case nil:
	case *ast.BlockStmt:
		if t != nil {
			for _, st := range t.List {
				rewriteStmt(st, rw)
			}
		}
	case *ast.ExprStmt:
		t.X = rw(t.X)
	case *ast.AssignStmt:
		for i := range t.Lhs {
			t.Lhs[i] = rw(t.Lhs[i])
		}
		for i := range t.Rhs {
			t.Rhs[i] = rw(t.Rhs[i])
		}
	case *ast.IncDecStmt:
		t.X = rw(t.X)
	case *ast.ReturnStmt:
		for i := range t.Results {
			t.Results[i] = rw(t.Results[i])
		}
	case *ast.IfStmt:
		rewriteStmt(t.Init, rw)
		t.Cond = rw(t.Cond)
		rewriteStmt(t.Body, rw)
		rewriteStmt(t.Else, rw)
	case *ast.ForStmt:
		rewriteStmt(t.Init, rw)
		t.Cond = rw(t.Cond)
		rewriteStmt(t.Post, rw)
		rewriteStmt(t.Body, rw)
	case *ast.RangeStmt:
		t.X = rw(t.X)
		rewriteStmt(t.Body, rw)
	case *ast.SwitchStmt:
		rewriteStmt(t.Init, rw)
		t.Tag = rw(t.Tag)
		rewriteStmt(t.Body, rw)
	case *ast.CaseClause:
		for i := range t.List {
			t.List[i] = rw(t.List[i])
		}
		for _, st := range t.Body {
			rewriteStmt(st, rw)
		}
	case *ast.DeclStmt:
		if gd, ok := t.Decl.(*ast.GenDecl); ok {
			for _, sp := range gd.Specs {
				if vs, ok := sp.(*ast.ValueSpec); ok {
					for i := range vs.Values {
						vs.Values[i] = rw(vs.Values[i])
					}
				}
			}
		}
	case *ast.BranchStmt, *ast.EmptyStmt:
	case *ast.DeferStmt:
		t.Call.Fun = rw(t.Call.Fun)
	}
}

// expected shapes (the text the hand-written model follows) -----------------------------------------

var legacyscoreShapes = map[string]string{
	"SearchWithOptions":             `{ if options.Limit <= 0 { options.Limit = ℍ } queryWords := strings.Fields(strings.ToLower(query)) results := make([]SearchResult, 0, resultsBufferCap(len(db.Commands), options.Limit)) currentPlatform := getCurrentPlatform() for i := range db.Commands { cmd := &db.Commands[i] if result := db.calculateCommandScore(cmd, queryWords, options.ContextBoosts, currentPlatform); result != nil { results = append(results, *result) } } return db.sortAndLimitResults(results, options.Limit) }`,
	"SearchWithPipelineOptions":     `{ if options.Limit <= 0 { options.Limit = ℍ } queryWords := strings.Fields(strings.ToLower(query)) results := make([]SearchResult, 0, resultsBufferCap(len(db.Commands), options.Limit)) for i := range db.Commands { cmd := &db.Commands[i] if options.PipelineOnly && !isPipelineCommand(cmd) { continue } score := calculateScore(cmd, queryWords, options.ContextBoosts) if isPipelineCommand(cmd) && options.PipelineBoost > 0 { score = finiteScore(score * options.PipelineBoost) } if score > 0 { results = append(results, SearchResult{ Command: cmd, Score: score, }) } } return db.sortAndLimitResults(results, options.Limit) }`,
	"sortAndLimitResults":           `{ sort.SliceStable(results, func(i, j int) bool { return results[i].Score > results[j].Score }) if len(results) > limit { results = results[:limit] } return results }`,
	"isPipelineCommand":             `{ if cmd.Pipeline { return true } command := cmd.Command return strings.Contains(command, "|") || strings.Contains(strings.ToLower(command), "pipe") || strings.Contains(command, "&&") || strings.Contains(command, ">>") }`,
	"db.calculateCommandScore":      `{ if len(cmd.Platform) > 0 { isCrossPlatform := false platformMatch := false for _, p := range cmd.Platform { if strings.EqualFold(p, "cross-platform") { isCrossPlatform = true break } if strings.EqualFold(p, currentPlatform) { platformMatch = true break } } if !isCrossPlatform && !platformMatch { if isCrossPlatformTool(cmd.Command) { score := calculateScore(cmd, queryWords, contextBoosts) * ℍ if score > 0 { return &SearchResult{Command: cmd, Score: score} } } return nil } } score := calculateScore(cmd, queryWords, contextBoosts) if score > 0 { return &SearchResult{Command: cmd, Score: score} } return nil }`,
	"calculateWordScore":            `{ var wordScore float64 wordScore += calculateCommandScore(word, cmd.CommandLower) wordScore += calculateDomainScore(word, cmd) wordScore += calculateKeywordScore(word, cmd.KeywordsLower) wordScore += calculateDescriptionScore(word, cmd.DescriptionLower) wordScore += calculateTagScore(word, cmd.TagsLower) return wordScore }`,
	"calculateCommandScore":         `{ if cmdLower == word { return ℍ } if strings.HasPrefix(cmdLower, word+" ") || strings.HasPrefix(cmdLower, word) { return ℍ } if strings.Contains(cmdLower, " "+word+" ") || strings.Contains(cmdLower, " "+word) { return ℍ } if strings.Contains(cmdLower, word) { return ℍ } return 0 }`,
	"calculateDomainScore":          `{ if isDomainSpecificMatch(word, cmd) { return ℍ } return 0 }`,
	"calculateKeywordScore":         `{ for _, keyword := range keywordsLower { if keyword == word { return ℍ } } for _, keyword := range keywordsLower { if strings.Contains(keyword, word) { return ℍ } } return 0 }`,
	"calculateDescriptionScore":     `{ if strings.Contains(descLower, " "+word+" ") || strings.HasPrefix(descLower, word+" ") || strings.HasSuffix(descLower, " "+word) { return ℍ } if strings.Contains(descLower, word) { return ℍ } return 0 }`,
	"calculateTagScore":             `{ for _, tag := range tagsLower { if tag == word { return ℍ } } for _, tag := range tagsLower { if strings.Contains(tag, word) { return ℍ } } return 0 }`,
	"calculateScore":                `{ var score float64 var maxWordScore float64 matchedWords := 0 for _, word := range queryWords { if len(word) < ℍ { continue } wordScore := calculateWordScore(word, cmd) if wordScore > maxWordScore { maxWordScore = wordScore } if wordScore > 0 { matchedWords++ } if contextBoosts != nil { if boost, exists := contextBoosts[word]; exists { wordScore *= boost } } score += wordScore } if len(queryWords) > 1 && matchedWords > 1 { completenessBonus := float64(matchedWords) / float64(len(queryWords)) score *= (ℍ + completenessBonus*ℍ) } if maxWordScore >= ℍ { score *= ℍ } else if maxWordScore >= ℍ { score *= ℍ } score *= getCategoryRelevanceBoost(cmd, queryWords) if contextBoosts != nil && cmd.Niche != "" { nicheLower := strings.ToLower(cmd.Niche) if boost, exists := contextBoosts[nicheLower]; exists { score *= (ℍ + boost*ℍ) } } return finiteScore(score) }`,
	"finiteScore":                   `{ if math.IsInf(score, 1) { return math.MaxFloat64 } return score }`,
	"isDomainSpecificMatch":         `{ cmdLower := strings.ToLower(cmd.Command) domainMappings := 𝕋 if commands, exists := domainMappings[word]; exists { for _, domainCmd := range commands { if cmdLower == domainCmd || strings.HasPrefix(cmdLower, domainCmd+" ") { return true } } } return false }`,
	"getCategoryRelevanceBoost":     `{ boost := ℍ cmdLower := strings.ToLower(cmd.Command) for _, word := range queryWords { categoryBoost := getCategoryBoostForWord(word, cmdLower) boost *= categoryBoost } return boost }`,
	"SearchWithFuzzy":               `{ if options.Limit <= 0 { options.Limit = ℍ } exactOptions := options exactOptions.Limit = options.Limit * ℍ if exactOptions.Limit < options.Limit { exactOptions.Limit = options.Limit } exactOptions.UseFuzzy = false exactResults := db.SearchWithOptions(query, exactOptions) if len(exactResults) >= options.Limit && exactResults[0].Score > ℍ { return db.limitResults(exactResults, options.Limit) } if options.UseFuzzy { fuzzyResults := db.performFuzzySearch(query, options) return db.combineAndDeduplicateResults(exactResults, fuzzyResults, options.Limit) } return db.limitResults(exactResults, options.Limit) }`,
	"limitResults":                  `{ if len(results) > limit { return results[:limit] } return results }`,
	"performFuzzySearch":            `{ targets := make([]string, len(db.Commands)) var builder strings.Builder for i, cmd := range db.Commands { builder.Reset() builder.WriteString(cmd.Command) builder.WriteByte(' ') builder.WriteString(cmd.Description) targets[i] = strings.ReplaceAll(builder.String(), "\x00", " ") } matches := fuzzy.Find(query, targets) var results []SearchResult currentPlatform := getCurrentPlatform() for _, match := range matches { if len(results) >= options.Limit*2 { break } if !passesFilters(&db.Commands[match.Index], currentPlatform, options) { continue } if options.FuzzyThreshold != 0 && match.Score < options.FuzzyThreshold { continue } normalizedScore := float64(match.Score+int(ℍ)) / ℍ if normalizedScore < 0 { normalizedScore = 0 } if normalizedScore > 1 { normalizedScore = 1 } results = append(results, SearchResult{ Command: &db.Commands[match.Index], Score: normalizedScore, }) } return results }`,
	"combineAndDeduplicateResults":  `{ seen := make(map[string]bool) var combined []SearchResult for _, result := range exactResults { key := result.Command.Command + "|" + result.Command.Description if !seen[key] { seen[key] = true combined = append(combined, result) } } for _, result := range fuzzyResults { key := result.Command.Command + "|" + result.Command.Description if !seen[key] { seen[key] = true result.Score *= ℍ combined = append(combined, result) } } sort.SliceStable(combined, func(i, j int) bool { return combined[i].Score > combined[j].Score }) if len(combined) > limit { combined = combined[:limit] } return combined }`,
	"GetSuggestions":                `{ if maxSuggestions <= 0 { maxSuggestions = ℍ } wordSet := make(map[string]bool) for _, cmd := range db.Commands { cmdWords := strings.Fields(cmd.Command) for _, word := range cmdWords { cleanWord := strings.ToLower(strings.Trim(word, 𝕊)) if len(cleanWord) > 2 { wordSet[cleanWord] = true } } descWords := strings.Fields(cmd.Description) for _, word := range descWords { cleanWord := strings.ToLower(strings.Trim(word, 𝕊)) if len(cleanWord) > 2 && !isCommonWord(cleanWord) { wordSet[cleanWord] = true } } } words := make([]string, 0, len(wordSet)) for word := range wordSet { words = append(words, word) } sort.Strings(words) for i, w := range words { words[i] = strings.ReplaceAll(w, "\x00", " ") } matches := fuzzy.Find(query, words) var suggestions []string for i, match := range matches { if i >= maxSuggestions { break } if match.Score >= ℍ { suggestions = append(suggestions, words[match.Index]) } } return suggestions }`,
	"isCommonWord":                  `{ commonWords := 𝕋 return commonWords[word] }`,
	"SearchWithNLP":                 `{ if !options.UseNLP { return db.SearchWithFuzzy(query, options) } if options.Limit <= 0 { options.Limit = ℍ } candidateLimit := options.Limit * 2 if candidateLimit < options.Limit { candidateLimit = options.Limit } if db.tfidf != nil && db.cmdIndex != nil { tfidfResults := db.tfidf.Search(query, candidateLimit) var results []SearchResult for _, tfidfResult := range tfidfResults { if tfidfResult.CommandIndex < len(db.Commands) { results = append(results, SearchResult{ Command: &db.Commands[tfidfResult.CommandIndex], Score: tfidfResult.Similarity * ℍ, }) } } if len(results) > options.Limit { results = results[:options.Limit] } return results } nlpCommands := make([]nlp.Command, len(db.Commands)) for i, cmd := range db.Commands { nlpCommands[i] = nlp.Command{ Command: cmd.Command, Description: cmd.Description, Keywords: cmd.Keywords, } } tfidfSearcher := nlp.NewTFIDFSearcher(nlpCommands) tfidfResults := tfidfSearcher.Search(query, candidateLimit) var results []SearchResult for _, tfidfResult := range tfidfResults { results = append(results, SearchResult{ Command: &db.Commands[tfidfResult.CommandIndex], Score: tfidfResult.Score, }) } if len(results) < options.Limit { processor := nlp.NewQueryProcessor() processedQuery := processor.ProcessQuery(query) enhancedKeywords := processedQuery.GetEnhancedKeywords() enhancedQuery := strings.Join(enhancedKeywords, " ") searchOptions := options searchOptions.UseNLP = false searchOptions.Limit = options.Limit - len(results) fallbackResults := db.SearchWithFuzzy(enhancedQuery, searchOptions) for i := range fallbackResults { intentBoost := calculateIntentBoost(fallbackResults[i].Command, processedQuery) fallbackResults[i].Score *= intentBoost * ℍ } results = append(results, fallbackResults...) } sort.SliceStable(results, func(i, j int) bool { return results[i].Score > results[j].Score }) if len(results) > options.Limit { results = results[:options.Limit] } return results }`,
	"isCrossPlatformTool":           `{ cmdLower := strings.ToLower(command) for tool := range crossPlatformTools { if strings.HasPrefix(cmdLower, tool+" ") || cmdLower == tool { return true } } return false }`,
	"nlp.TFIDFSearcher.Search#tail": `sort.SliceStable(results, func(i, j int) bool { return results[i].Similarity > results[j].Similarity }) if len(results) > limit { results = results[:limit] } return results`,
}

// names of the numeric holes of each function, in source order (kind: i = Int, q = Q)
var legacyscoreHoleNames = map[string][]string{
	"SearchWithOptions":            {"i:optionsDefaultLimit"},
	"SearchWithPipelineOptions":    {"i:pipelineDefaultLimit"},
	"db.calculateCommandScore":     {"q:crossPlatformPenalty"},
	"calculateCommandScore":        {"q:cmdExact", "q:cmdPrefix", "q:cmdWord", "q:cmdContains"},
	"calculateDomainScore":         {"q:domainScore"},
	"calculateKeywordScore":        {"q:keywordExact", "q:keywordPartial"},
	"calculateDescriptionScore":    {"q:descWord", "q:descPartial"},
	"calculateTagScore":            {"q:tagExact", "q:tagPartial"},
	"calculateScore":               {"i:minWordLength", "q:completenessBase", "q:completenessWeight", "q:directThreshold", "q:directBonus", "q:commandThreshold", "q:commandBonus", "q:nicheBase", "q:nicheFactor"},
	"getCategoryRelevanceBoost":    {"q:categoryInit"},
	"SearchWithFuzzy":              {"i:fuzzyDefaultLimit", "i:exactMultiplier", "q:goodExactThreshold"},
	"performFuzzySearch":           {"q:fuzzyBaseA", "q:fuzzyBaseB"},
	"combineAndDeduplicateResults": {"q:fuzzyDiscount"},
	"GetSuggestions":               {"i:suggestDefaultMax", "i:suggestThreshold"},
	"SearchWithNLP":                {"i:nlpDefaultLimit", "q:similarityScale", "q:fallbackPriority"},
}

// category rules -----------------------------------------------------------------------------------

type legacyscoreAtom struct{ kind, s string } // kind: eq | pre | has

type legacyscoreRule struct {
	atoms []legacyscoreAtom
	val   constant.Value
}

// pred translates a Boolean expression over the string parameter `param` into a disjunction of atoms,
// inlining calls of one-line predicate functions `isX(param)`.
func (c *legacyscoreCtx) pred(e ast.Expr, param string, depth int) ([]legacyscoreAtom, bool) {
	switch t := e.(type) {
	case *ast.ParenExpr:
		return c.pred(t.X, param, depth)
	case *ast.BinaryExpr:
		switch t.Op {
		case token.LOR:
			a, ok1 := c.pred(t.X, param, depth)
			b, ok2 := c.pred(t.Y, param, depth)
			return append(a, b...), ok1 && ok2
		case token.EQL:
			if id, ok := t.X.(*ast.Ident); ok && id.Name == param {
				if s, ok := c.str(t.Y); ok {
					return []legacyscoreAtom{{"eq", s}}, true
				}
			}
		}
	case *ast.CallExpr:
		fn := types.ExprString(t.Fun)
		if (fn == "strings.HasPrefix" || fn == "strings.Contains") && len(t.Args) == 2 {
			if id, ok := t.Args[0].(*ast.Ident); ok && id.Name == param {
				if s, ok := c.str(t.Args[1]); ok {
					k := "pre"
					if fn == "strings.Contains" {
						k = "has"
					}
					return []legacyscoreAtom{{k, s}}, true
				}
			}
		}
		if id, ok := t.Fun.(*ast.Ident); ok && depth < 3 && len(t.Args) == 1 {
			if a, ok := t.Args[0].(*ast.Ident); ok && a.Name == param {
				if fd := c.funcs[id.Name]; fd != nil && fd.Recv == nil && len(fd.Type.Params.List) == 1 && len(fd.Type.Params.List[0].Names) == 1 && len(fd.Body.List) == 1 {
					if rs, ok := fd.Body.List[0].(*ast.ReturnStmt); ok && len(rs.Results) == 1 {
						return c.pred(rs.Results[0], fd.Type.Params.List[0].Names[0].Name, depth+1)
					}
				}
			}
		}
	}
	return nil, false
}

// helper translates `func getXBoost(cmdLower string) float64 { if p1 { return v1 } … return d }`.
func (c *legacyscoreCtx) helper(name string) (rules []legacyscoreRule, dflt constant.Value, ok bool) {
	fd := c.funcs[name]
	if fd == nil || fd.Recv != nil || len(fd.Type.Params.List) != 1 || len(fd.Type.Params.List[0].Names) != 1 || len(fd.Body.List) == 0 {
		return nil, nil, false
	}
	param := fd.Type.Params.List[0].Names[0].Name
	for i, st := range fd.Body.List {
		if i == len(fd.Body.List)-1 {
			rs, isRet := st.(*ast.ReturnStmt)
			if !isRet || len(rs.Results) != 1 {
				return nil, nil, false
			}
			v, _, okv := c.num(rs.Results[0])
			return rules, v, okv
		}
		is, isIf := st.(*ast.IfStmt)
		if !isIf || is.Init != nil || is.Else != nil || len(is.Body.List) != 1 {
			return nil, nil, false
		}
		rs, isRet := is.Body.List[0].(*ast.ReturnStmt)
		if !isRet || len(rs.Results) != 1 {
			return nil, nil, false
		}
		v, _, okv := c.num(rs.Results[0])
		atoms, okp := c.pred(is.Cond, param, 0)
		if !okv || !okp {
			return nil, nil, false
		}
		rules = append(rules, legacyscoreRule{atoms, v})
	}
	return nil, nil, false
}

func legacyscoreAtomLean(a legacyscoreAtom) string {
	return "." + a.kind + " " + leanStr(a.s)
}

func legacyscoreAscii(s string) bool {
	for i := 0; i < len(s); i++ {
		if s[i] >= 0x80 {
			return false
		}
	}
	return true
}

func init() {
	register("f_legacyscore", func(x *X) {
		c := &legacyscoreCtx{x: x, consts: map[string]constant.Value{}, fset: token.NewFileSet(), funcs: map[string]*ast.FuncDecl{}}
		// constants, evaluated by the type checker
		{
			files := x.Pkg("internal/constants")
			names := []string{}
			for n := range files {
				names = append(names, n)
			}
			sort.Strings(names)
			var fs []*ast.File
			for _, n := range names {
				fs = append(fs, files[n])
			}
			conf := types.Config{Importer: importer.ForCompiler(x.Fset, "source", nil), Error: func(error) {}}
			pkg, _ := conf.Check("constants", x.Fset, fs, nil)
			if !x.Assert("legacyscore:constants", pkg != nil, "package constants does not type-check") {
				return
			}
			for _, n := range pkg.Scope().Names() {
				if k, ok := pkg.Scope().Lookup(n).(*types.Const); ok {
					c.consts[n] = k.Val()
				}
			}
		}
		// private parse of search.go (the shape printer rewrites the AST)
		src := filepath.Join(x.Repo, legacyscoreDB, "search.go")
		f, err := parser.ParseFile(c.fset, src, nil, 0)
		if !x.Assert("legacyscore:parse", err == nil, "%v", err) {
			return
		}
		for _, d := range f.Decls {
			if fd, ok := d.(*ast.FuncDecl); ok && fd.Body != nil {
				name := fd.Name.Name
				if fd.Recv != nil && (name == "calculateCommandScore") {
					name = "db." + name
				}
				c.funcs[name] = fd
			}
		}

		var sb strings.Builder
		sb.WriteString("import WtfModel.Basic.Q\nnamespace Wtf.Gen.LegacyScore\n\n")
		sb.WriteString("/-- a test on the lower-cased command text: equal to / starts with / contains the literal -/\n")
		sb.WriteString("inductive Atom where\n  | eq (s : String)\n  | pre (s : String)\n  | has (s : String)\nderiving Repr, DecidableEq\n\n")
		facts := map[string]string{}

		// ---- category switch and helpers (interpreted) — BEFORE the shapes, which rewrite the AST ----
		type catCase struct {
			words []string
			rules []legacyscoreRule
			dflt  constant.Value
			fn    string
		}
		var cases []catCase
		var switchDefault constant.Value
		okSwitch := false
		if fd := c.funcs["getCategoryBoostForWord"]; x.Assert("legacyscore:category-switch:func", fd != nil, "getCategoryBoostForWord not found") {
			okSwitch = len(fd.Body.List) == 1 && len(fd.Type.Params.List) == 1 && len(fd.Type.Params.List[0].Names) == 2
			var sw *ast.SwitchStmt
			if okSwitch {
				sw, okSwitch = fd.Body.List[0].(*ast.SwitchStmt)
			}
			if okSwitch {
				wordParam, cmdParam := fd.Type.Params.List[0].Names[0].Name, fd.Type.Params.List[0].Names[1].Name
				okSwitch = sw.Init == nil && sw.Tag != nil && types.ExprString(sw.Tag) == wordParam
				seen := map[string]bool{}
				for _, st := range sw.Body.List {
					cc := st.(*ast.CaseClause)
					if len(cc.Body) != 1 {
						okSwitch = false
						continue
					}
					rs, isRet := cc.Body[0].(*ast.ReturnStmt)
					if !isRet || len(rs.Results) != 1 {
						okSwitch = false
						continue
					}
					if cc.List == nil { // default
						v, _, okv := c.num(rs.Results[0])
						if !okv {
							okSwitch = false
						}
						switchDefault = v
						continue
					}
					var words []string
					for _, e := range cc.List {
						s, oks := c.str(e)
						if !oks || seen[s] {
							okSwitch = false
						}
						seen[s] = true
						words = append(words, s)
					}
					call, isCall := rs.Results[0].(*ast.CallExpr)
					if !isCall || len(call.Args) != 1 || types.ExprString(call.Args[0]) != cmdParam {
						okSwitch = false
						continue
					}
					hn := types.ExprString(call.Fun)
					rules, dflt, okh := c.helper(hn)
					x.Assert("legacyscore:category-helper:"+hn, okh, "%s is not of the form `if <or of HasPrefix/Contains/== on the parameter> { return <const> } … return <const>`", hn)
					if !okh {
						okSwitch = false
						continue
					}
					cases = append(cases, catCase{words, rules, dflt, hn})
				}
				if switchDefault == nil {
					okSwitch = false
				}
			}
			x.Assert("legacyscore:category-switch", okSwitch, "expected getCategoryBoostForWord to be one `switch word` whose cases `return get<X>Boost(cmdLower)` and whose default returns a constant")
		}
		// the caller lower-cases the command itself: getCategoryRelevanceBoost's shape is asserted below

		// ---- shapes and holes ----
		order := []string{"SearchWithOptions", "SearchWithPipelineOptions", "sortAndLimitResults", "isPipelineCommand", "db.calculateCommandScore",
			"calculateWordScore", "calculateCommandScore", "calculateDomainScore", "calculateKeywordScore", "calculateDescriptionScore",
			"calculateTagScore", "calculateScore", "finiteScore", "isDomainSpecificMatch", "getCategoryRelevanceBoost", "SearchWithFuzzy", "limitResults",
			"performFuzzySearch", "combineAndDeduplicateResults", "GetSuggestions", "isCommonWord", "SearchWithNLP", "isCrossPlatformTool"}
		var domainTable, commonTable *ast.CompositeLit
		var cutsets []string
		for _, fn := range order {
			fd := c.funcs[fn]
			if !x.Assert("legacyscore:shape:"+fn, fd != nil, "function %s not found in search.go", fn) {
				continue
			}
			text, holes, tables, cuts := c.shape(fd)
			want := legacyscoreShapes[fn]
			names := legacyscoreHoleNames[fn]
			ok := text == want && len(holes) == len(names)
			x.Assert("legacyscore:shape:"+fn, ok, "body of %s (values replaced by holes) is\n  %s\nexpected\n  %s\n(%d holes, %d expected)", fn, text, want, len(holes), len(names))
			if len(holes) == len(names) {
				for i, h := range holes {
					kind, name := names[i][:1], names[i][2:]
					switch {
					case kind == "i" && h.isInt:
						fmt.Fprintf(&sb, "/-- %s: `%s` -/\ndef %s : Int := %s\n", fn, h.src, name, h.val.ExactString())
						facts[name] = h.val.ExactString()
					case kind == "q":
						q, okq := leanQ(h.val)
						x.Assert("legacyscore:value:"+name, okq, "cannot render %s exactly", h.src)
						fmt.Fprintf(&sb, "/-- %s: `%s` -/\ndef %s : Wtf.Q := %s\n", fn, h.src, name, q)
						facts[name] = h.val.ExactString()
					default:
						x.Assert("legacyscore:value:"+name, false, "%s in %s: expected an integer constant, found %s", name, fn, h.src)
					}
				}
			}
			switch fn {
			case "isDomainSpecificMatch":
				if len(tables) == 1 {
					domainTable = tables[0]
				}
			case "isCommonWord":
				if len(tables) == 1 {
					commonTable = tables[0]
				}
			case "GetSuggestions":
				cutsets = cuts
			}
		}
		sb.WriteString("\n")

		// ---- TF-IDF Search: stable sort by similarity, then truncation (what SearchWithNLP's first branch relies on) ----
		{
			ok := false
			if nf := x.Func("internal/nlp", "Search"); nf != nil && nf.Recv != nil {
				var b bytes.Buffer
				printer.Fprint(&b, x.Fset, nf.Body)
				body := strings.Join(strings.Fields(b.String()), " ")
				// the similarity floor is a value (regenerated, so that re-tuning it is followed by the model); the rest is shape
				floor := ""
				if m := regexp.MustCompile(`if similarity > ([0-9]+(?:\.[0-9]+)?) \{`).FindStringSubmatch(body); m != nil {
					if q, qok := leanQ(constant.MakeFromLiteral(m[1], map[bool]token.Token{true: token.FLOAT, false: token.INT}[strings.Contains(m[1], ".")], 0)); qok {
						floor = q
					}
				}
				ok = strings.HasSuffix(body, legacyscoreShapes["nlp.TFIDFSearcher.Search#tail"]+" }") &&
					strings.Contains(body, "Score: similarity * 100,") && floor != ""
				if ok {
					fmt.Fprintf(&sb, "/-- TFIDFSearcher.Search: `if similarity > <floor>` -/\ndef tfidfMinSim : Wtf.Q := %s\n\n", floor)
				}
			}
			x.Assert("legacyscore:tfidf-search-tail", ok, "expected TFIDFSearcher.Search to keep similarities > <a literal floor> with Score = similarity*100, sort.SliceStable by Similarity descending and cut to the limit")
		}

		// ---- tables ----
		okDom := domainTable != nil
		var domKeys []string
		dom := map[string][]string{}
		if okDom {
			for _, e := range domainTable.Elts {
				kv, isKV := e.(*ast.KeyValueExpr)
				if !isKV {
					okDom = false
					continue
				}
				k, okk := c.str(kv.Key)
				cl, isCL := kv.Value.(*ast.CompositeLit)
				if !okk || !isCL {
					okDom = false
					continue
				}
				var vs []string
				for _, ve := range cl.Elts {
					s, oks := c.str(ve)
					if !oks {
						okDom = false
					}
					vs = append(vs, s)
				}
				if _, dup := dom[k]; dup {
					okDom = false
				}
				dom[k] = vs
				domKeys = append(domKeys, k)
			}
		}
		x.Assert("legacyscore:domain-table", okDom && len(domKeys) > 0, "expected domainMappings to be a map[string][]string literal of string constants")
		sb.WriteString("/-- isDomainSpecificMatch: domainMappings (query word ↦ command names) -/\ndef domainMappings : List (String × List String) := [\n")
		for i, k := range domKeys {
			sep := ","
			if i == len(domKeys)-1 {
				sep = ""
			}
			fmt.Fprintf(&sb, "  (%s, %s)%s\n", leanStr(k), leanStrList(dom[k]), sep)
		}
		sb.WriteString("]\n\n")

		okCommon := commonTable != nil
		var common []string
		if okCommon {
			for _, e := range commonTable.Elts {
				kv, isKV := e.(*ast.KeyValueExpr)
				if !isKV {
					okCommon = false
					continue
				}
				k, okk := c.str(kv.Key)
				id, isID := kv.Value.(*ast.Ident)
				if !okk || !isID || (id.Name != "true" && id.Name != "false") {
					okCommon = false
					continue
				}
				if id.Name == "true" {
					common = append(common, k)
				}
			}
		}
		x.Assert("legacyscore:common-words", okCommon && len(common) > 0, "expected commonWords to be a map[string]bool literal")
		fmt.Fprintf(&sb, "/-- isCommonWord: keys of commonWords mapped to true -/\ndef commonWords : List String := %s\n\n", leanStrList(common))

		okCut := len(cutsets) == 2 && legacyscoreAscii(cutsets[0]) && legacyscoreAscii(cutsets[1]) && len(cutsets[0]) > 1 && len(cutsets[1]) > 1
		x.Assert("legacyscore:trim-cutsets", okCut, "expected two strings.Trim calls with ASCII cut sets of more than one character in GetSuggestions (found %q)", cutsets)
		if okCut {
			fmt.Fprintf(&sb, "/-- GetSuggestions: strings.Trim cut sets for command words / description words -/\ndef commandCutset : String := %s\ndef descriptionCutset : String := %s\n\n", leanStr(cutsets[0]), leanStr(cutsets[1]))
		} else {
			sb.WriteString("def commandCutset : String := \"\"\ndef descriptionCutset : String := \"\"\n\n")
		}

		// ---- category rules ----
		sb.WriteString("/-- getCategoryBoostForWord with its helpers inlined: (case words, [(any of these atoms holds, factor)], factor otherwise) -/\n")
		sb.WriteString("def categoryRules : List (List String × List (List Atom × Wtf.Q) × Wtf.Q) := [\n")
		for i, cs := range cases {
			var rs []string
			for _, r := range cs.rules {
				var as []string
				for _, a := range r.atoms {
					as = append(as, legacyscoreAtomLean(a))
				}
				q, _ := leanQ(r.val)
				rs = append(rs, "(["+strings.Join(as, ", ")+"], "+q+")")
			}
			d, _ := leanQ(cs.dflt)
			sep := ","
			if i == len(cases)-1 {
				sep = ""
			}
			fmt.Fprintf(&sb, "  -- %s\n  (%s, [%s], %s)%s\n", cs.fn, leanStrList(cs.words), strings.Join(rs, ", "), d, sep)
		}
		sb.WriteString("]\n")
		if switchDefault != nil {
			q, _ := leanQ(switchDefault)
			fmt.Fprintf(&sb, "/-- the `default:` of the switch -/\ndef categoryDefault : Wtf.Q := %s\n", q)
		} else {
			sb.WriteString("def categoryDefault : Wtf.Q := ⟨1, 1⟩\n")
		}
		sb.WriteString("\nend Wtf.Gen.LegacyScore\n")
		x.WriteLean("LegacyScore", sb.String())
		x.Fact("legacyscore", facts)
	})
}
