package main

import (
	"go/ast"
	"go/types"
	"os"
	"path/filepath"
	"regexp"
	"strings"
)

// Code-shape facts for C04 (the gate sits on every path) and C07 (where the typo fallback is consulted,
// its threshold / cap / NUL guard, the pinned matcher version).  Expressions are compared in their
// printed form (types.ExprString), so re-formatting does not matter but any change of the condition does.

// exprs collects the printed form of every expression node of kind call / binary / unary inside n.
func condStrings(n ast.Node) []string {
	var out []string
	ast.Inspect(n, func(m ast.Node) bool {
		switch t := m.(type) {
		case *ast.IfStmt:
			out = append(out, "if "+types.ExprString(t.Cond))
		case *ast.CallExpr:
			out = append(out, types.ExprString(t))
		case *ast.AssignStmt:
			if len(t.Lhs) == 1 && len(t.Rhs) == 1 {
				out = append(out, types.ExprString(t.Lhs[0])+" "+t.Tok.String()+" "+types.ExprString(t.Rhs[0]))
			}
		case *ast.KeyValueExpr:
			out = append(out, types.ExprString(t.Key)+": "+types.ExprString(t.Value))
		}
		return true
	})
	return out
}

func has(xs []string, want string) bool {
	for _, x := range xs {
		if x == want {
			return true
		}
	}
	return false
}

func count(xs []string, want string) int {
	n := 0
	for _, x := range xs {
		if x == want {
			n++
		}
	}
	return n
}

// ifBodyHas: is there an `if <cond>` whose body (directly or nested) contains the printed statement/call `inner`,
// itself nested in an `if <outer>`?
func nestedIf(fd *ast.FuncDecl, outer, mid, call string) int {
	n := 0
	ast.Inspect(fd.Body, func(m ast.Node) bool {
		o, ok := m.(*ast.IfStmt)
		if !ok || types.ExprString(o.Cond) != outer {
			return true
		}
		for _, st := range o.Body.List {
			i, ok := st.(*ast.IfStmt)
			if !ok || types.ExprString(i.Cond) != mid {
				continue
			}
			if has(condStrings(i.Body), call) {
				n++
			}
		}
		return true
	})
	return n
}

func init() {
	register("d_c04c07", func(x *X) {
		const db = "internal/database"
		// ---- C04: the gate on every path
		if fd := x.Func(db, "processPostingsForTerm"); fd == nil {
			x.Assert("c04:lexical-gate", false, "processPostingsForTerm not found")
		} else {
			cs := condStrings(fd.Body)
			x.Assert("c04:lexical-gate", has(cs, "if !passesFilters(doc, currentPlatform, options)") && has(cs, "doc := &db.Commands[p.docID]"),
				"expected `doc := &db.Commands[p.docID]; if !passesFilters(doc, currentPlatform, options) { continue }` in processPostingsForTerm")
		}
		if fd := x.Func(db, "performFuzzySearch"); fd == nil {
			x.Assert("c04:fuzzy-gate", false, "performFuzzySearch not found")
		} else {
			cs := condStrings(fd.Body)
			x.Assert("c04:fuzzy-gate", has(cs, "if !passesFilters(&db.Commands[match.Index], currentPlatform, options)"),
				"expected `if !passesFilters(&db.Commands[match.Index], currentPlatform, options) { continue }` in performFuzzySearch")
			// ---- C07: threshold, cap, NUL guard
			x.Assert("c07:threshold", has(cs, "if options.FuzzyThreshold != 0 && match.Score < options.FuzzyThreshold"),
				"expected `if options.FuzzyThreshold != 0 && match.Score < options.FuzzyThreshold { continue }`")
			x.Assert("c07:cap", has(cs, "if len(results) >= options.Limit * 2"), "expected `if len(results) >= options.Limit*2 { break }`")
			x.Assert("c07:nul-guard", has(cs, `targets[i] = strings.ReplaceAll(builder.String(), "\x00", " ")`),
				"expected `targets[i] = strings.ReplaceAll(builder.String(), \"\\x00\", \" \")`")
			x.Assert("c07:matcher-call", has(cs, "fuzzy.Find(query, targets)"), "expected `fuzzy.Find(query, targets)`")
		}
		if fd := x.Func(db, "FilterResults"); fd == nil {
			x.Assert("c04:recovery-gate", false, "database.FilterResults not found")
		} else {
			cs := condStrings(fd.Body)
			x.Assert("c04:recovery-gate", has(cs, "if r.Command != nil && passesFilters(r.Command, currentPlatform, options)") &&
				has(cs, "kept = append(kept, r)") && has(cs, "currentPlatform := getCurrentPlatform()"),
				"expected FilterResults to keep exactly the results with passesFilters(r.Command, getCurrentPlatform(), options)")
		}
		if fd := x.Func(db, "SearchWithPipelineOptions"); fd == nil {
			x.Assert("c04:legacy-pipeline-gate", false, "SearchWithPipelineOptions not found")
		} else {
			x.Assert("c04:legacy-pipeline-gate", has(condStrings(fd.Body), "if options.PipelineOnly && !isPipelineCommand(cmd)"),
				"expected `if options.PipelineOnly && !isPipelineCommand(cmd) { continue }`")
		}
		if fd := x.Func(db, "passesFilters"); fd == nil {
			x.Assert("c04:gate-shape", false, "passesFilters not found")
		} else {
			cs := condStrings(fd.Body)
			x.Assert("c04:gate-shape", has(cs, "if !options.AllPlatforms && len(doc.Platform) > 0") &&
				has(cs, `if strings.EqualFold(p, "cross-platform")`) &&
				has(cs, "if strings.EqualFold(p, want) || checkPlatformVariant(p, strings.ToLower(want))") &&
				has(cs, "if !declared && (options.NoCrossPlatform || (!crossTag && !isCrossPlatformTool(doc.Command)))") &&
				has(cs, "if options.PipelineOnly && !isPipelineCommand(doc)"),
				"passesFilters no longer has the shape transliterated in Model/Filters.lean")
		}
		// the CLI passes the three platform switches into the engine and filters recovered results
		var cli []string
		for _, f := range x.Pkg("internal/cli") {
			if strings.HasSuffix(x.Fset.Position(f.Pos()).Filename, "search.go") {
				cli = condStrings(f)
			}
		}
		x.Assert("c04:cli-options", has(cli, "AllPlatforms: flags.allPlatforms") && has(cli, "Platforms: flags.platforms") &&
			has(cli, "NoCrossPlatform: flags.noCrossPlatform") && has(cli, "db.SearchUniversal(query, searchOptions)"),
			"cli/search.go: expected AllPlatforms/Platforms/NoCrossPlatform taken from the flags and SearchUniversal(query, searchOptions)")
		x.Assert("c04:cli-recovery-gate", has(cli, "recoveredResults = database.FilterResults(recoveredResults, searchOptions)"),
			"cli/search.go: expected `recoveredResults = database.FilterResults(recoveredResults, searchOptions)` after the recovery search")

		// ---- C07: the fallback is consulted on exactly the two "nothing" exits; query normalised on entry
		if fd := x.Func(db, "SearchUniversal"); fd == nil {
			x.Assert("c07:fallback-sites", false, "SearchUniversal not found")
		} else {
			cs := condStrings(fd.Body)
			call := "db.limitResults(db.performFuzzySearch(query, options), options.Limit)"
			n1 := nestedIf(fd, "len(terms) == 0", "options.UseFuzzy", call)
			n2 := nestedIf(fd, "len(scores) == 0", "options.UseFuzzy", call)
			x.Assert("c07:fallback-sites", n1 == 1 && n2 == 1 && count(cs, "db.performFuzzySearch(query, options)") == 2,
				"expected performFuzzySearch to be called exactly twice: under `if len(terms) == 0 { if options.UseFuzzy {…} }` and `if len(scores) == 0 { if options.UseFuzzy {…} }` (found %d, %d, total %d)",
				n1, n2, count(cs, "db.performFuzzySearch(query, options)"))
			x.Assert("c07:normalize-on-entry", has(cs, "query = strings.ToLower(strings.TrimSpace(query))"),
				"expected `query = strings.ToLower(strings.TrimSpace(query))` in SearchUniversal")
		}
		// the matcher version the model transliterates
		mod, _ := os.ReadFile(filepath.Join(x.Repo, "go.mod"))
		m := regexp.MustCompile(`github\.com/sahilm/fuzzy\s+(v[0-9.]+)`).FindSubmatch(mod)
		ver := ""
		if m != nil {
			ver = string(m[1])
		}
		x.Assert("c07:fuzzy-version", ver == "v0.1.1", "Model/Fuzzy.lean transliterates github.com/sahilm/fuzzy v0.1.1; go.mod has %q", ver)
		x.Fact("fuzzy.version", ver)
	})
}
